package check

import (
	"fmt"
	"go/ast"
	"go/token"
	"go/types"
	"sort"
	"strings"

	"golang.org/x/tools/go/packages"
	"golang.org/x/tools/go/ssa"
)

const bytecodeRel = "pkg/bytecode"

func bytecodePkg(c *Ctx, r *Reporter) (*Program, *packages.Package) {
	p, err := c.Default()
	if err != nil {
		r.Undecided("%v", err)
		return nil, nil
	}
	pkg := p.Pkg(bytecodeRel)
	if pkg == nil {
		r.Undecided("package %s not loaded", bytecodeRel)
		return nil, nil
	}
	return p, pkg
}

// ---------------------------------------------------------------------------
// R-OPTABLE

var ruleOpTable = &Rule{
	ID:    "R-OPTABLE",
	Doc:   "the Opcode constants, the keys of `definitions` and the case labels of the VM's dispatch switch coincide; per opcode the VM advances ip by exactly the defined operand widths on every non-jump path and reads operands at ip+1; every width is one Make/ReadOperands encode; every emit site passes as many operands as the opcode defines",
	Floor: 60,
	Run:   runOpTable,
}

func runOpTable(c *Ctx, r *Reporter) {
	p, pkg := bytecodePkg(c, r)
	if pkg == nil {
		return
	}
	info := pkg.TypesInfo
	consts := constsOfType(pkg.Types, "Opcode")
	if len(consts) == 0 {
		r.Undecided("no Opcode constants found")
		return
	}
	defsInit := pkgVarInit(pkg, "definitions")
	if defsInit == nil {
		r.Undecided("var definitions not found")
		return
	}
	widths := map[*types.Const][]int64{}
	defPos := map[*types.Const]token.Pos{}
	for _, e := range mapLitEntries(defsInit) {
		k := constOf(info, e.Key)
		if k == nil {
			r.Undecided("definitions: non-constant key %s", types.ExprString(e.Key))
			continue
		}
		cl, ok := e.Value.(*ast.CompositeLit)
		if !ok {
			r.Undecided("definitions[%s]: value is not a composite literal", k.Name())
			continue
		}
		var wexpr ast.Expr
		for i, el := range cl.Elts {
			if kvp, ok := el.(*ast.KeyValueExpr); ok {
				if id, ok := kvp.Key.(*ast.Ident); ok && id.Name == "OperandWidths" {
					wexpr = kvp.Value
				}
			} else if i == 1 {
				wexpr = el
			}
		}
		ws := []int64{}
		if wl, ok := wexpr.(*ast.CompositeLit); ok {
			for _, w := range wl.Elts {
				v, ok := constInt(info, w)
				if !ok {
					r.Undecided("definitions[%s]: non-constant width", k.Name())
				}
				ws = append(ws, v)
			}
		}
		if _, dup := widths[k]; dup {
			r.Viol("definitions#dup:"+k.Name(), p.Rel(e.Key.Pos()), "duplicate definition for "+k.Name())
		}
		widths[k] = ws
		defPos[k] = e.Key.Pos()
	}
	run := FindFunc(pkg, "(*VM).Run")
	if run == nil {
		r.Undecided("(*VM).Run not found")
		return
	}
	// the dispatch switch: expression switch whose tag has type Opcode and the most cases
	var sw *ast.SwitchStmt
	for _, s := range findSwitches(run.Decl.Body, func(s *ast.SwitchStmt) bool {
		return s.Tag != nil && isNamed(info.TypeOf(s.Tag), pkg.PkgPath, "Opcode")
	}) {
		if sw == nil || len(s.Body.List) > len(sw.Body.List) {
			sw = s
		}
	}
	if sw == nil {
		r.Undecided("dispatch switch over Opcode not found in (*VM).Run")
		return
	}
	cases, def := caseConsts(info, sw.Body)
	// value collisions between opcode constants
	byVal := map[string][]string{}
	for _, k := range consts {
		byVal[k.Val().ExactString()] = append(byVal[k.Val().ExactString()], k.Name())
	}
	for v, names := range byVal {
		if len(names) > 1 {
			sort.Strings(names)
			r.Viol("Opcode#value:"+v, p.Rel(run.Decl.Pos()), fmt.Sprintf("opcode constants %v share the value %s", names, v))
		}
	}
	sort.Slice(consts, func(i, j int) bool { return consts[i].Name() < consts[j].Name() })
	for _, k := range consts {
		name := k.Name()
		pos := p.Rel(k.Pos())
		ws, hasDef := widths[k]
		r.Check(hasDef, "Opcode:"+name+"#definition", pos, "has an OpDefinition", "opcode constant without an entry in definitions: Make/Lookup fail or the disassembler panics")
		cc, hasCase := cases[k]
		if !hasCase {
			why := "opcode constant without a case in (*VM).Run"
			if def == nil {
				why += ": the VM silently skips it (no default)"
			}
			r.Viol("Opcode:"+name+"#vmcase", pos, why)
			continue
		}
		r.Ok("Opcode:"+name+"#vmcase", p.Rel(cc.Pos()), "VM has a case")
		if !hasDef {
			continue
		}
		var total int64
		twoByte := 0
		for _, w := range ws {
			total += w
			if w == 2 {
				twoByte++
			} else {
				r.Viol("Opcode:"+name+"#width", p.Rel(defPos[k]), fmt.Sprintf("operand width %d is not encoded by Make/ReadOperands (only width 2 is)", w))
			}
		}
		// path enumeration over the case body
		outs := ipPaths(info, cc.Body)
		okIP := true
		why := ""
		for _, o := range outs {
			if o.jumped || o.returned {
				continue
			}
			if o.sum != total {
				okIP = false
				why = fmt.Sprintf("a non-jump path through case %s advances ip by %d, definitions says %d", name, o.sum, total)
			}
		}
		r.Check(okIP, "Opcode:"+name+"#ipadvance", p.Rel(cc.Pos()), fmt.Sprintf("ip advanced by %d on every non-jump path", total), why)
		reads, badRead := operandReads(info, cc.Body)
		readOK := badRead == "" && (reads == twoByte || (reads <= twoByte && anyJump(outs)))
		r.Check(readOK, "Opcode:"+name+"#operandread", p.Rel(cc.Pos()), fmt.Sprintf("%d operand read(s) at ip+1", reads),
			joinNonEmpty(badRead, fmt.Sprintf("case %s reads %d two-byte operand(s), definitions says %d", name, reads, twoByte)))
	}
	for k := range widths {
		found := false
		for _, c2 := range consts {
			if c2 == k {
				found = true
			}
		}
		if !found {
			r.Viol("definitions#unknown:"+k.Name(), p.Rel(defPos[k]), "definitions has a key that is not an Opcode constant of this package")
		}
	}
	// emit sites
	emitArity(p, pkg, widths, r)
}

type ipOutcome struct {
	sum      int64
	jumped   bool
	returned bool
}

func anyJump(outs []ipOutcome) bool {
	for _, o := range outs {
		if o.jumped {
			return true
		}
	}
	return false
}

// ipPaths enumerates structured paths through stmts, tracking `ip += k` and `ip = …`.
func ipPaths(info *types.Info, stmts []ast.Stmt) []ipOutcome {
	outs := []ipOutcome{{}}
	for _, st := range stmts {
		var next []ipOutcome
		for _, o := range outs {
			if o.returned {
				next = append(next, o)
				continue
			}
			for _, d := range ipStmt(info, st) {
				next = append(next, ipOutcome{sum: o.sum + d.sum, jumped: o.jumped || d.jumped, returned: d.returned})
			}
		}
		outs = dedupOutcomes(next)
	}
	return outs
}

func dedupOutcomes(in []ipOutcome) []ipOutcome {
	seen := map[ipOutcome]bool{}
	var out []ipOutcome
	for _, o := range in {
		if !seen[o] {
			seen[o] = true
			out = append(out, o)
		}
	}
	return out
}

func isIPIdent(e ast.Expr) bool {
	id, ok := ast.Unparen(e).(*ast.Ident)
	return ok && id.Name == "ip"
}

func ipStmt(info *types.Info, st ast.Stmt) []ipOutcome {
	switch x := st.(type) {
	case *ast.AssignStmt:
		if len(x.Lhs) == 1 && isIPIdent(x.Lhs[0]) {
			switch x.Tok {
			case token.ADD_ASSIGN:
				if v, ok := constInt(info, x.Rhs[0]); ok {
					return []ipOutcome{{sum: v}}
				}
				return []ipOutcome{{jumped: true}}
			case token.ASSIGN:
				return []ipOutcome{{jumped: true}}
			default:
				return []ipOutcome{{sum: -1 << 40}}
			}
		}
		return []ipOutcome{{}}
	case *ast.IncDecStmt:
		if isIPIdent(x.X) {
			if x.Tok == token.INC {
				return []ipOutcome{{sum: 1}}
			}
			return []ipOutcome{{sum: -1}}
		}
		return []ipOutcome{{}}
	case *ast.ReturnStmt:
		return []ipOutcome{{returned: true}}
	case *ast.BlockStmt:
		return ipPaths(info, x.List)
	case *ast.IfStmt:
		outs := ipPaths(info, x.Body.List)
		if x.Else != nil {
			outs = append(outs, ipStmt(info, x.Else)...)
		} else {
			outs = append(outs, ipOutcome{})
		}
		return dedupOutcomes(outs)
	case *ast.SwitchStmt:
		return ipCases(info, x.Body)
	case *ast.TypeSwitchStmt:
		return ipCases(info, x.Body)
	case *ast.ForStmt:
		outs := ipPaths(info, x.Body.List)
		outs = append(outs, ipOutcome{})
		return dedupOutcomes(outs)
	case *ast.RangeStmt:
		outs := ipPaths(info, x.Body.List)
		outs = append(outs, ipOutcome{})
		return dedupOutcomes(outs)
	}
	return []ipOutcome{{}}
}

func ipCases(info *types.Info, body *ast.BlockStmt) []ipOutcome {
	var outs []ipOutcome
	hasDefault := false
	for _, st := range body.List {
		cc := st.(*ast.CaseClause)
		if cc.List == nil {
			hasDefault = true
		}
		outs = append(outs, ipPaths(info, cc.Body)...)
	}
	if !hasDefault {
		outs = append(outs, ipOutcome{})
	}
	return dedupOutcomes(outs)
}

// operandReads counts ReadUint16(<ins>[ip+1:]) calls; a read at another offset is reported.
func operandReads(info *types.Info, stmts []ast.Stmt) (int, string) {
	n := 0
	bad := ""
	for _, st := range stmts {
		ast.Inspect(st, func(x ast.Node) bool {
			call, ok := x.(*ast.CallExpr)
			if !ok {
				return true
			}
			fn := calleeFunc(info, call)
			if fn == nil || fn.Name() != "ReadUint16" || len(call.Args) != 1 {
				return true
			}
			n++
			se, ok := ast.Unparen(call.Args[0]).(*ast.SliceExpr)
			if !ok {
				bad = "operand read is not a slice of the instructions at ip+1"
				return true
			}
			be, ok := ast.Unparen(se.Low).(*ast.BinaryExpr)
			if !ok || be.Op != token.ADD || !isIPIdent(be.X) {
				bad = "operand read does not start at ip+1"
				return true
			}
			if v, ok := constInt(info, be.Y); !ok || v != 1 {
				bad = "operand read does not start at ip+1"
			}
			return true
		})
	}
	return n, bad
}

// emitArity: every call of (*Compiler).emit / emitPos / Make passes as many operands as the opcode defines.
func emitArity(p *Program, pkg *packages.Package, widths map[*types.Const][]int64, r *Reporter) {
	info := pkg.TypesInfo
	for _, fn := range Funcs(pkg) {
		n := 0
		// opcode-typed local variables → the constants assigned to them in this function
		varConsts := map[types.Object][]*types.Const{}
		ast.Inspect(fn.Decl.Body, func(x ast.Node) bool {
			as, ok := x.(*ast.AssignStmt)
			if !ok {
				return true
			}
			for i, l := range as.Lhs {
				id, ok := l.(*ast.Ident)
				if !ok || i >= len(as.Rhs) && len(as.Rhs) != 1 {
					continue
				}
				obj := info.ObjectOf(id)
				if obj == nil || !isNamed(obj.Type(), pkg.PkgPath, "Opcode") {
					continue
				}
				var rhs ast.Expr
				if len(as.Rhs) == len(as.Lhs) {
					rhs = as.Rhs[i]
				}
				if k := constOf(info, rhs); k != nil {
					varConsts[obj] = append(varConsts[obj], k)
				}
				// op, n, err := c.helper(…): the opcode constants the helper returns at this position
				if len(as.Rhs) == 1 && len(as.Lhs) > 1 {
					if hc, ok := ast.Unparen(as.Rhs[0]).(*ast.CallExpr); ok {
						if hf := calleeFunc(info, hc); hf != nil && hf.Pkg() == pkg.Types {
							for _, hd := range Funcs(pkg) {
								if hd.Obj != hf || hd.Decl.Body == nil {
									continue
								}
								ast.Inspect(hd.Decl.Body, func(y ast.Node) bool {
									if _, isLit := y.(*ast.FuncLit); isLit {
										return false
									}
									if ret, ok := y.(*ast.ReturnStmt); ok && i < len(ret.Results) {
										if k := constOf(info, ret.Results[i]); k != nil && isNamed(k.Type(), pkg.PkgPath, "Opcode") {
											varConsts[obj] = append(varConsts[obj], k)
										}
									}
									return true
								})
							}
						}
					}
				}
			}
			return true
		})
		ast.Inspect(fn.Decl.Body, func(x ast.Node) bool {
			call, ok := x.(*ast.CallExpr)
			if !ok {
				return true
			}
			callee := calleeFunc(info, call)
			if callee == nil || callee.Pkg() != pkg.Types || len(call.Args) == 0 {
				return true
			}
			if callee.Name() != "emit" && callee.Name() != "emitPos" && callee.Name() != "Make" {
				return true
			}
			if call.Ellipsis.IsValid() {
				return true // forwarding wrapper (emit → emitPos → Make)
			}
			n++
			construct := fmt.Sprintf("%s#emit[%d]", fn.QName(), n)
			var ops []*types.Const
			if k := constOf(info, call.Args[0]); k != nil {
				ops = []*types.Const{k}
			} else if id, ok := ast.Unparen(call.Args[0]).(*ast.Ident); ok {
				ops = varConsts[info.ObjectOf(id)]
			}
			if len(ops) == 0 {
				r.Viol(construct, p.Rel(call.Pos()), "opcode argument "+types.ExprString(call.Args[0])+" cannot be resolved to Opcode constants")
				return true
			}
			got := len(call.Args) - 1
			for _, k := range ops {
				ws, ok := widths[k]
				if !ok {
					r.Viol(construct, p.Rel(call.Pos()), "emits "+k.Name()+" which has no definition")
					return true
				}
				if len(ws) != got {
					r.Viol(construct, p.Rel(call.Pos()), fmt.Sprintf("emits %s with %d operand(s), definitions says %d", k.Name(), got, len(ws)))
					return true
				}
			}
			names := []string{}
			for _, k := range ops {
				names = append(names, k.Name())
			}
			r.Ok(construct, p.Rel(call.Pos()), fmt.Sprintf("%s with %d operand(s)", strings.Join(names, "|"), got))
			return true
		})
	}
}

// ---------------------------------------------------------------------------
// R-EXHAUST

type dispatcherSpec struct {
	rel, fn    string
	policy     string // "all-or-error", "all", "error-on-nomatch"
	exempt     map[string]string
	resultDesc string
}

var exhaustSpecs = map[string]dispatcherSpec{
	"eval": {rel: "pkg/evaluator", fn: "(*Evaluator).eval", policy: "all-or-error", exempt: map[string]string{
		"ConditionalBlock": "evaluated by its parents evalIf/evalWhile through evalConditionalBlock, never passed to eval",
		"StepRange":        "evaluated by newStepRange from evalFor, never passed to eval",
	}},
	"format":  {rel: "pkg/parser", fn: "(*formatting).format", policy: "all"},
	"Compile": {rel: "pkg/bytecode", fn: "(*Compiler).Compile", policy: "error-on-nomatch"},
}

func exhaustRule(which string, floor int) *Rule {
	spec := exhaustSpecs[which]
	return &Rule{
		ID:    "R-EXHAUST/" + which,
		Doc:   "the type switch over parser.Node in " + spec.fn + " covers every node type the parser defines (policy " + spec.policy + ") and its no-match path fails loudly",
		Floor: floor,
		Run: func(c *Ctx, r *Reporter) {
			runExhaust(c, r, spec)
		},
	}
}

func parserNodeTypes(p *Program) ([]*types.Named, *types.Interface) {
	pp := p.Pkg("pkg/parser")
	if pp == nil {
		return nil, nil
	}
	obj := pp.Types.Scope().Lookup("Node")
	if obj == nil {
		return nil, nil
	}
	iface, ok := obj.Type().Underlying().(*types.Interface)
	if !ok {
		return nil, nil
	}
	return concreteImplementers(pp.Types, iface), iface
}

func runExhaust(c *Ctx, r *Reporter, spec dispatcherSpec) {
	p, err := c.Default()
	if err != nil {
		r.Undecided("%v", err)
		return
	}
	nodes, iface := parserNodeTypes(p)
	if len(nodes) < 20 {
		r.Undecided("only %d parser.Node implementations found", len(nodes))
		return
	}
	pkg := p.Pkg(spec.rel)
	fn := FindFunc(pkg, spec.fn)
	if fn == nil {
		r.Undecided("dispatcher %s.%s not found", spec.rel, spec.fn)
		return
	}
	info := pkg.TypesInfo
	// the type switch whose subject is a parameter of interface type parser.Node (in the dispatcher, or in the function
	// it hands the node to)
	fn, ts := nodeDispatcher(pkg, fn, iface)
	if ts == nil {
		r.Undecided("%s has no type switch over parser.Node", spec.fn)
		return
	}
	cases, def := typeSwitchCases(info, ts)
	// a default clause that hands the node on to another function of the package with a type switch of its own
	// (format → formatExpr) continues the dispatch there: the cases add up and the last default is the no-match path
	for hop := 0; hop < 3 && def != nil && len(def.Body) > 0; hop++ {
		var next *FuncDecl
		for _, st := range def.Body {
			ast.Inspect(st, func(n ast.Node) bool {
				call, ok := n.(*ast.CallExpr)
				if !ok || next != nil {
					return true
				}
				cf := calleeFunc(info, call)
				if cf == nil || cf.Pkg() != pkg.Types || cf == fn.Obj {
					return true
				}
				for _, d2 := range Funcs(pkg) {
					if d2.Obj == cf {
						if _, ts2 := nodeDispatcher(pkg, d2, iface); ts2 != nil && ts2 != ts {
							next = d2
						}
					}
				}
				return true
			})
		}
		if next == nil {
			break
		}
		_, ts2 := nodeDispatcher(pkg, next, iface)
		more, def2 := typeSwitchCases(info, ts2)
		for tn, cc := range more {
			if _, dup := cases[tn]; !dup {
				cases[tn] = cc
			}
		}
		def, ts = def2, ts2
	}
	// no-match path
	noMatchLoud := false
	if def != nil {
		noMatchLoud = endsInErrorReturn(info, def.Body)
	} else {
		// statements following the switch in the function body
		for i, st := range fn.Decl.Body.List {
			if st == ast.Stmt(ts) {
				noMatchLoud = endsInErrorReturn(info, fn.Decl.Body.List[i+1:])
			}
		}
	}
	if spec.policy != "all" {
		r.Check(noMatchLoud, fn.QName()+"#nomatch", p.Rel(ts.Pos()), "a node kind without a case ends in a non-nil error",
			"a node kind without a case falls through without an error: the construct is silently dropped")
	}
	for _, n := range nodes {
		name := n.Obj().Name()
		construct := fn.QName() + "#case:" + name
		_, has := cases[n.Obj()]
		switch {
		case has:
			r.Ok(construct, p.Rel(cases[n.Obj()].Pos()), "has a case")
		case spec.exempt[name] != "":
			r.Exempt(construct, p.Rel(ts.Pos()), spec.exempt[name])
		case spec.policy == "error-on-nomatch":
			r.Check(noMatchLoud, construct, p.Rel(ts.Pos()), "no case; rejected by the default error", "no case and no loud default: silently dropped")
		case spec.policy == "all-or-error":
			r.Viol(construct, p.Rel(ts.Pos()), "node type parser."+name+" has no case in "+spec.fn+": a program containing it fails with an internal error")
		default:
			r.Viol(construct, p.Rel(ts.Pos()), "node type parser."+name+" has no case in "+spec.fn+": the default prints a placeholder into the user's source")
		}
	}
}

// ---------------------------------------------------------------------------
// R-NARROW

var ruleNarrow = &Rule{
	ID:    "R-NARROW",
	Doc:   "every conversion of an int to a narrower integer type in pkg/bytecode is dominated by a range check of the converted value (operands, jump targets and constant indices cannot wrap)",
	Floor: 1, // the encoder and the patcher may share one range-checked helper
	Run:   runNarrow,
}

func intSize(t types.Type) (int, bool, bool) {
	b, ok := t.Underlying().(*types.Basic)
	if !ok || b.Info()&types.IsInteger == 0 {
		return 0, false, false
	}
	switch b.Kind() {
	case types.Int8:
		return 8, true, true
	case types.Uint8:
		return 8, false, true
	case types.Int16:
		return 16, true, true
	case types.Uint16:
		return 16, false, true
	case types.Int32:
		return 32, true, true
	case types.Uint32:
		return 32, false, true
	case types.Int, types.Int64:
		return 64, true, true
	case types.Uint, types.Uint64, types.Uintptr:
		return 64, false, true
	}
	return 0, false, false
}

func runNarrow(c *Ctx, r *Reporter) {
	p, pkg := bytecodePkg(c, r)
	if pkg == nil {
		return
	}
	for _, fd := range Funcs(pkg) {
		sf := p.SSAFunc(fd.Obj)
		if sf == nil {
			continue
		}
		n := 0
		for _, fn := range withAnon(sf) {
			for _, b := range fn.Blocks {
				for _, ins := range b.Instrs {
					cv, ok := ins.(*ssa.Convert)
					if !ok {
						continue
					}
					fromBits, _, ok1 := intSize(cv.X.Type())
					toBits, _, ok2 := intSize(cv.Type())
					if !ok1 || !ok2 || toBits >= fromBits {
						continue
					}
					if _, isConst := cv.X.(*ssa.Const); isConst {
						continue
					}
					n++
					construct := fmt.Sprintf("%s#narrow[%d]:%s→%s", fd.QName(), n, cv.X.Type(), cv.Type())
					if guardedByRangeCheck(cv) {
						r.Ok(construct, p.Rel(instrPos(cv)), "dominated by a range check")
					} else {
						r.Viol(construct, p.Rel(instrPos(cv)), fmt.Sprintf("%s(%s) without a dominating range check: values above the target range wrap silently", cv.Type(), cv.X.Name()))
					}
				}
			}
		}
	}
}

// guardedByRangeCheck: some dominating If compares the converted value (or the
// same SSA value) with a constant or len bound, and the conversion lies on one side.
func guardedByRangeCheck(cv *ssa.Convert) bool {
	x := cv.X
	// a byte taken out of a checked value by shifting or masking (byte(o>>8), byte(o&0xff)): the check is on o
	for {
		bo, ok := x.(*ssa.BinOp)
		if !ok || (bo.Op != token.SHR && bo.Op != token.AND) {
			break
		}
		if _, isConst := bo.Y.(*ssa.Const); !isConst {
			break
		}
		x = bo.X
	}
	blk := cv.Block()
	for d := blk.Idom(); d != nil; d = d.Idom() {
		if len(d.Instrs) == 0 {
			continue
		}
		ifi, ok := d.Instrs[len(d.Instrs)-1].(*ssa.If)
		if !ok {
			continue
		}
		if condMentions(ifi.Cond, x, 3) {
			return true
		}
		// `if err := checkRange(x); err != nil { return … }`: a helper of the package that compares its parameter with
		// bounds and returns an error on one side of the comparison
		if bo, ok := ifi.Cond.(*ssa.BinOp); ok && (bo.Op == token.NEQ || bo.Op == token.EQL) {
			if k, ok := bo.Y.(*ssa.Const); ok && k.IsNil() {
				if hc, ok := bo.X.(*ssa.Call); ok {
					h := hc.Call.StaticCallee()
					nilEdge := 1
					if bo.Op == token.EQL {
						nilEdge = 0
					}
					if h != nil && h.Pkg == cv.Parent().Pkg && len(h.Blocks) > 0 && edgeDominates(d, nilEdge, blk) {
						for i, a := range hc.Call.Args {
							if a != x || i >= len(h.Params) {
								continue
							}
							for _, hb := range h.Blocks {
								if len(hb.Instrs) == 0 {
									continue
								}
								hif, ok := hb.Instrs[len(hb.Instrs)-1].(*ssa.If)
								if ok && condMentions(hif.Cond, h.Params[i], 3) && (onlyErrorReturns(hb.Succs[0], map[*ssa.BasicBlock]bool{}) || onlyErrorReturns(hb.Succs[1], map[*ssa.BasicBlock]bool{})) {
									return true
								}
							}
						}
					}
				}
			}
		}
	}
	return false
}

func condMentions(cond ssa.Value, x ssa.Value, depth int) bool {
	if depth == 0 {
		return false
	}
	switch c := cond.(type) {
	case *ssa.BinOp:
		switch c.Op {
		case token.LSS, token.GTR, token.LEQ, token.GEQ:
			if c.X == x || c.Y == x {
				return true
			}
		case token.AND, token.OR, token.LAND, token.LOR:
			return condMentions(c.X, x, depth-1) || condMentions(c.Y, x, depth-1)
		}
	case *ssa.UnOp:
		return condMentions(c.X, x, depth-1)
	case *ssa.Phi:
		for _, e := range c.Edges {
			if condMentions(e, x, depth-1) {
				return true
			}
		}
	}
	return false
}

// ---------------------------------------------------------------------------
// R-JUMPPATCH

var ruleJumpPatch = &Rule{
	ID:    "R-JUMPPATCH",
	Doc:   "every position returned by emitPos(op, JumpPlaceholder) reaches changeOperand on every success path: directly, through a slice that is ranged into changeOperand (jumpPositions, c.breaks), or by being returned to a caller that does so, or by being handed to a helper that patches its parameter on every success path; a function that stores a fresh c.breaks list puts the list it read before back on every successful path",
	Floor: 4,
	Run:   runJumpPatch,
}

func runJumpPatch(c *Ctx, r *Reporter) {
	p, pkg := bytecodePkg(c, r)
	if pkg == nil {
		return
	}
	placeholder, _ := pkg.Types.Scope().Lookup("JumpPlaceholder").(*types.Const)
	if placeholder == nil {
		r.Undecided("const JumpPlaceholder not found")
		return
	}
	emitPos := FindFunc(pkg, "(*Compiler).emitPos")
	change := FindFunc(pkg, "(Instructions).changeOperand")
	if emitPos == nil || change == nil {
		r.Undecided("emitPos/changeOperand not found")
		return
	}
	emitPosSSA, changeSSA := p.SSAFunc(emitPos.Obj), p.SSAFunc(change.Obj)
	// functions that return a pending (unpatched) position: callers inherit the obligation
	pendingReturners := map[*ssa.Function]bool{}
	type site struct {
		fn   *ssa.Function
		val  ssa.Value // the int position
		desc string
		pos  token.Pos
	}
	var sites []site
	collect := func(fn *ssa.Function, isPending func(call *ssa.Call) bool) {
		for _, b := range fn.Blocks {
			for _, ins := range b.Instrs {
				call, ok := ins.(*ssa.Call)
				if !ok || !isPending(call) {
					continue
				}
				// first result
				var val ssa.Value
				if refs := call.Referrers(); refs != nil {
					for _, ref := range *refs {
						if ex, ok := ref.(*ssa.Extract); ok && ex.Index == 0 {
							val = ex
						}
					}
				}
				if val == nil {
					sites = append(sites, site{fn: fn, val: nil, desc: call.String(), pos: call.Pos()})
					continue
				}
				sites = append(sites, site{fn: fn, val: val, desc: call.Call.StaticCallee().Name(), pos: call.Pos()})
			}
		}
	}
	isPlaceholderEmit := func(call *ssa.Call) bool {
		if call.Call.StaticCallee() != emitPosSSA {
			return false
		}
		// variadic operands: slice literal; find a store of the constant JumpPlaceholder into it
		if len(call.Call.Args) < 3 {
			return false
		}
		return sliceHasConst(call.Call.Args[2], placeholder.Val().ExactString())
	}
	var allFns []*ssa.Function
	for _, fd := range Funcs(pkg) {
		if sf := p.SSAFunc(fd.Obj); sf != nil {
			allFns = append(allFns, sf)
		}
	}
	for _, fn := range allFns {
		collect(fn, isPlaceholderEmit)
	}
	done := map[*ssa.Function]bool{}
	counters := map[string]int{}
	for i := 0; i < len(sites); i++ {
		s := sites[i]
		counters[ssaQName(s.fn)]++
		construct := fmt.Sprintf("%s#jump[%d]", ssaQName(s.fn), counters[ssaQName(s.fn)])
		if s.val == nil {
			r.Viol(construct, p.Rel(s.pos), "the position of a placeholder jump is discarded: it can never be patched")
			continue
		}
		kind, useBlocks, why := jumpConsumers(s.val, changeSSA, s.fn)
		if kind == "" {
			r.Viol(construct, p.Rel(s.pos), "placeholder jump position is never patched: "+why)
			continue
		}
		if path := successPathAvoiding(s.val.(ssa.Instruction).Block(), useBlocks); path != "" {
			r.Viol(construct, p.Rel(s.pos), "a success path from the emit to a return avoids the "+kind+": "+path)
			continue
		}
		if kind == "return" && !done[s.fn] {
			done[s.fn] = true
			pendingReturners[s.fn] = true
			target := s.fn
			for _, fn := range allFns {
				collect(fn, func(call *ssa.Call) bool { return call.Call.StaticCallee() == target })
			}
		}
		r.Ok(construct, p.Rel(s.pos), "reaches "+kind+" on every success path")
	}
	// c.breaks discipline: every function that resets c.breaks also ranges it into changeOperand
	breaksDiscipline(p, pkg, changeSSA, r)
}

// sliceHasConst: v is the variadic slice; true if a constant with the given exact value is stored into it.
func sliceHasConst(v ssa.Value, exact string) bool {
	sl, ok := v.(*ssa.Slice)
	if !ok {
		return false
	}
	alloc, ok := sl.X.(*ssa.Alloc)
	if !ok {
		return false
	}
	for _, ref := range *alloc.Referrers() {
		ia, ok := ref.(*ssa.IndexAddr)
		if !ok {
			continue
		}
		for _, r2 := range *ia.Referrers() {
			if st, ok := r2.(*ssa.Store); ok {
				if k, ok := st.Val.(*ssa.Const); ok && k.Value != nil && k.Value.ExactString() == exact {
					return true
				}
			}
		}
	}
	return false
}

// jumpConsumers classifies how a pending position is consumed.
func jumpConsumers(val ssa.Value, change *ssa.Function, fn *ssa.Function) (string, []*ssa.BasicBlock, string) {
	var blocks []*ssa.BasicBlock
	kind := ""
	refs := val.Referrers()
	if refs == nil {
		return "", nil, "the value is unused"
	}
	for _, ref := range *refs {
		switch x := ref.(type) {
		case *ssa.Call:
			if x.Call.StaticCallee() == change && len(x.Call.Args) >= 2 && x.Call.Args[1] == val {
				kind = "changeOperand"
				blocks = append(blocks, x.Block())
			}
			// handed to a helper of the package that patches the position it is given on each of its success paths
			if h := x.Call.StaticCallee(); h != nil && h != change && h != fn && h.Pkg == fn.Pkg && len(h.Blocks) > 0 {
				for i, a := range x.Call.Args {
					if a != val || i >= len(h.Params) {
						continue
					}
					if k2, b2, _ := jumpConsumers(h.Params[i], change, h); k2 == "changeOperand" && successPathAvoiding(h.Blocks[0], b2) == "" {
						kind = "changeOperand"
						blocks = append(blocks, x.Block())
					}
				}
			}
		case *ssa.Return:
			if kind == "" {
				kind = "return"
			}
			blocks = append(blocks, x.Block())
		case *ssa.Store:
			// stored into a slice literal element that is appended / later ranged
			if ia, ok := x.Addr.(*ssa.IndexAddr); ok {
				if sliceFlowsToPatch(ia.X, change, fn) {
					if kind == "" {
						kind = "append+range→changeOperand"
					}
					blocks = append(blocks, x.Block())
				}
			}
		}
	}
	if kind == "" {
		return "", nil, "no use as changeOperand position, return value or appended slice element"
	}
	return kind, blocks, ""
}

// sliceFlowsToPatch: the array/slice backing v is appended to a slice that is
// (a) stored to the field c.breaks, or (b) a local slice ranged into changeOperand.
func sliceFlowsToPatch(v ssa.Value, change *ssa.Function, fn *ssa.Function) bool {
	// v is *[1]int alloc (slice literal); find Slice of it, then append call, then where the result goes
	seen := map[ssa.Value]bool{}
	var work []ssa.Value
	work = append(work, v)
	for len(work) > 0 {
		cur := work[len(work)-1]
		work = work[:len(work)-1]
		if seen[cur] {
			continue
		}
		seen[cur] = true
		refs := cur.Referrers()
		if refs == nil {
			continue
		}
		for _, ref := range *refs {
			switch x := ref.(type) {
			case *ssa.Slice:
				work = append(work, x)
			case *ssa.Call:
				if bi, ok := x.Call.Value.(*ssa.Builtin); ok && bi.Name() == "append" {
					work = append(work, x)
				}
				// handed (as a list, typically the variadic one) to a helper that patches every position in it
				if h := x.Call.StaticCallee(); h != nil && h != change && h.Pkg == fn.Pkg {
					for ai, a := range x.Call.Args {
						if a == cur && listPatcher(h, ai, change) {
							return true
						}
					}
				}
			case *ssa.Phi:
				work = append(work, x)
			case *ssa.Store:
				if fa, ok := x.Addr.(*ssa.FieldAddr); ok && x.Val == cur {
					if fieldName(fa) == "breaks" {
						return true
					}
				}
			case *ssa.Range, *ssa.IndexAddr, *ssa.Index:
				// local slice iterated: accept if the function calls changeOperand inside a loop
				if callsInLoop(fn, change) {
					return true
				}
			case *ssa.UnOp:
				work = append(work, x)
			}
		}
	}
	return false
}

func fieldName(fa *ssa.FieldAddr) string {
	t := fa.X.Type()
	if pt, ok := t.Underlying().(*types.Pointer); ok {
		if st, ok := pt.Elem().Underlying().(*types.Struct); ok {
			return st.Field(fa.Field).Name()
		}
	}
	return ""
}

func callsInLoop(fn *ssa.Function, callee *ssa.Function) bool {
	for _, b := range fn.Blocks {
		for _, ins := range b.Instrs {
			if call, ok := ins.(*ssa.Call); ok && call.Call.StaticCallee() == callee {
				if inCycle(b) {
					return true
				}
			}
		}
	}
	return false
}

// inCycle: block b can reach itself.
func inCycle(b *ssa.BasicBlock) bool {
	seen := map[*ssa.BasicBlock]bool{}
	var stack []*ssa.BasicBlock
	stack = append(stack, b.Succs...)
	for len(stack) > 0 {
		cur := stack[len(stack)-1]
		stack = stack[:len(stack)-1]
		if cur == b {
			return true
		}
		if seen[cur] {
			continue
		}
		seen[cur] = true
		stack = append(stack, cur.Succs...)
	}
	return false
}

// successPathAvoiding: DFS from `from` to a Return whose error result may be nil, never entering a block in avoid.
// Returns a description of the path's return, or "".
func successPathAvoiding(from *ssa.BasicBlock, avoid []*ssa.BasicBlock) string {
	av := map[*ssa.BasicBlock]bool{}
	for _, b := range avoid {
		av[b] = true
	}
	if av[from] {
		return ""
	}
	seen := map[*ssa.BasicBlock]bool{}
	var stack []*ssa.BasicBlock
	stack = append(stack, from)
	for len(stack) > 0 {
		cur := stack[len(stack)-1]
		stack = stack[:len(stack)-1]
		if seen[cur] || av[cur] {
			continue
		}
		seen[cur] = true
		if len(cur.Instrs) > 0 {
			if ret, ok := cur.Instrs[len(cur.Instrs)-1].(*ssa.Return); ok {
				if isSuccessReturn(ret) {
					return fmt.Sprintf("return in block %d", cur.Index)
				}
			}
		}
		stack = append(stack, cur.Succs...)
	}
	return ""
}

// isSuccessReturn: the last result (an error) is the nil constant or not provably non-nil.
func isSuccessReturn(ret *ssa.Return) bool {
	if len(ret.Results) == 0 {
		return true
	}
	last := ret.Results[len(ret.Results)-1]
	if !isErrorType(last.Type()) {
		return true
	}
	return mayBeNilError(last, ret.Block(), 0)
}

// mayBeNilError: conservative "may this error value be nil at block b".
func mayBeNilError(v ssa.Value, b *ssa.BasicBlock, depth int) bool {
	switch x := v.(type) {
	case *ssa.Const:
		return x.IsNil()
	case *ssa.MakeInterface:
		return false
	case *ssa.Phi:
		if depth > 4 {
			return true
		}
		for _, e := range x.Edges {
			if mayBeNilError(e, b, depth+1) {
				return true
			}
		}
		return false
	case *ssa.Call:
		if f := x.Call.StaticCallee(); f != nil && f.Pkg != nil && f.Pkg.Pkg.Path() == "fmt" && f.Name() == "Errorf" {
			return false
		}
		// a function of the program that builds the error: every return of it hands out a non-nil error
		if f := x.Call.StaticCallee(); f != nil && len(f.Blocks) > 0 && depth < 3 && f.Signature.Results().Len() == 1 {
			all := true
			rets := returnsOf(f)
			for _, ret := range rets {
				if mayBeNilError(ret.Results[0], ret.Block(), depth+2) {
					all = false
				}
			}
			if all && len(rets) > 0 {
				return false
			}
		}
	}
	// value tested non-nil by a dominating `if err != nil` whose true branch leads here
	for d := b; d != nil; d = d.Idom() {
		idom := d.Idom()
		if idom == nil || len(idom.Instrs) == 0 {
			continue
		}
		ifi, ok := idom.Instrs[len(idom.Instrs)-1].(*ssa.If)
		if !ok {
			continue
		}
		if bo, ok := ifi.Cond.(*ssa.BinOp); ok && bo.Op == token.NEQ {
			if k, ok := bo.Y.(*ssa.Const); ok && k.IsNil() && bo.X == v && idom.Succs[0] == d && len(d.Preds) == 1 {
				return false
			}
		}
	}
	return true
}

// breaksDiscipline: in every function that assigns c.breaks a fresh (empty/nil) list — i.e. compiles a loop —
// c.breaks is ranged into changeOperand before it is restored.
func breaksDiscipline(p *Program, pkg *packages.Package, change *ssa.Function, r *Reporter) {
	for _, fd := range Funcs(pkg) {
		sf := p.SSAFunc(fd.Obj)
		if sf == nil {
			continue
		}
		resets := false
		var resetPos token.Pos
		patches := false
		for _, b := range sf.Blocks {
			for _, ins := range b.Instrs {
				switch x := ins.(type) {
				case *ssa.Store:
					if fa, ok := x.Addr.(*ssa.FieldAddr); ok && fieldName(fa) == "breaks" {
						switch v := x.Val.(type) {
						case *ssa.Const:
							if v.IsNil() {
								resets = true
								resetPos = x.Pos()
							}
						case *ssa.Slice:
							resets = true
							resetPos = x.Pos()
						}
					}
				case *ssa.Call:
					if x.Call.StaticCallee() == change && inCycle(b) && len(x.Call.Args) >= 2 {
						if derivesFromField(x.Call.Args[1], "breaks", 6) {
							patches = true
						}
					}
					// a helper that is handed c.breaks as a list and patches every position in it
					if h := x.Call.StaticCallee(); h != nil && h != change && h != sf && h.Pkg == sf.Pkg {
						for ai, a := range x.Call.Args {
							if derivesFromField(a, "breaks", 4) && listPatcher(h, ai, change) {
								patches = true
							}
						}
					}
					// a helper of the compiler that ranges c.breaks into changeOperand on every success path
					if h := x.Call.StaticCallee(); h != nil && h != change && h != sf && h.Pkg == sf.Pkg && len(h.Blocks) > 0 && !patches {
						var lastLoop *ssa.BasicBlock
						for _, hb := range h.Blocks {
							for _, hi := range hb.Instrs {
								if hc, ok := hi.(*ssa.Call); ok && hc.Call.StaticCallee() == change && inCycle(hb) && len(hc.Call.Args) >= 2 && derivesFromField(hc.Call.Args[1], "breaks", 6) {
									lastLoop = loopHeaderOf(hb)
								}
							}
						}
						if lastLoop != nil && successPathAvoiding(h.Blocks[0], []*ssa.BasicBlock{lastLoop}) == "" {
							patches = true // every success path of the helper passes its loop over the break list
						}
					}
				}
			}
		}
		if resets {
			r.Check(patches, fd.QName()+"#breaks", p.Rel(resetPos), "break jumps collected for this loop are patched to its end",
				"the function starts a fresh c.breaks list (a loop) but never patches the collected break jumps with changeOperand")
			// the list of the enclosing loop is put back: every store of a fresh list is followed, on every path to a
			// successful return, by a store of the list that was read before it
			for _, b := range sf.Blocks {
				for _, ins := range b.Instrs {
					st, ok := ins.(*ssa.Store)
					if !ok {
						continue
					}
					fa, ok := st.Addr.(*ssa.FieldAddr)
					if !ok || fieldName(fa) != "breaks" {
						continue
					}
					fresh := false
					switch v := st.Val.(type) {
					case *ssa.Const:
						fresh = v.IsNil()
					case *ssa.Slice:
						fresh = true
					}
					if !fresh {
						continue
					}
					var restores []*ssa.BasicBlock
					for _, b2 := range sf.Blocks {
						for _, i2 := range b2.Instrs {
							st2, ok := i2.(*ssa.Store)
							if !ok || st2 == st {
								continue
							}
							fa2, ok := st2.Addr.(*ssa.FieldAddr)
							if !ok || fieldName(fa2) != "breaks" {
								continue
							}
							if ld, ok := st2.Val.(*ssa.UnOp); ok {
								if lfa, ok := ld.X.(*ssa.FieldAddr); ok && fieldName(lfa) == "breaks" && instrDominates(ld, st) && (b2 != b || instrDominates(st, st2)) {
									restores = append(restores, b2)
								}
							}
						}
					}
					path := "no store puts the earlier list back"
					if len(restores) > 0 {
						path = successPathAvoiding(st.Block(), restores)
					}
					r.Check(len(restores) > 0 && path == "", fd.QName()+"#breaks-restored", p.Rel(st.Pos()), "the break list of the enclosing loop is put back when the loop is done",
						"a fresh c.breaks list is stored and the list that was there before is not put back on every successful path ("+path+"): the `break` statements of an enclosing loop that precede this loop are never patched and jump to the placeholder address")
				}
			}
		}
	}
}

func derivesFromField(v ssa.Value, field string, depth int) bool {
	if depth == 0 {
		return false
	}
	switch x := v.(type) {
	case *ssa.UnOp:
		return derivesFromField(x.X, field, depth-1)
	case *ssa.FieldAddr:
		return fieldName(x) == field
	case *ssa.IndexAddr:
		return derivesFromField(x.X, field, depth-1)
	case *ssa.Index:
		return derivesFromField(x.X, field, depth-1)
	case *ssa.Extract:
		return derivesFromField(x.Tuple, field, depth-1)
	case *ssa.Next:
		return derivesFromField(x.Iter, field, depth-1)
	case *ssa.Range:
		return derivesFromField(x.X, field, depth-1)
	case *ssa.Phi:
		for _, e := range x.Edges {
			if derivesFromField(e, field, depth-1) {
				return true
			}
		}
	}
	return false
}

// findSwitchesAll returns every expression switch of a function.
func findSwitchesAll(fd *FuncDecl) []*ast.SwitchStmt {
	return findSwitches(fd.Decl.Body, func(*ast.SwitchStmt) bool { return true })
}

// firstCaseConst returns the name of the first constant label of a case clause.
func firstCaseConst(pkg *packages.Package, st ast.Stmt) string {
	cc, ok := st.(*ast.CaseClause)
	if !ok {
		return ""
	}
	for _, e := range cc.List {
		if k := constOf(pkg.TypesInfo, e); k != nil {
			return k.Name()
		}
	}
	return ""
}

// ---------------------------------------------------------------------------
// R-LOOPVARSCOPE

var ruleLoopVarScope = &Rule{
	ID:    "R-LOOPVARSCOPE",
	Doc:   "the compiler defines a `for` loop variable inside a scope that encloses the whole loop (enterScope dominates the Define, leaveScope follows): otherwise the loop variable shares the slot of an outer variable of the same name, which the evaluator keeps distinct",
	Floor: 1,
	Run:   runLoopVarScope,
}

func runLoopVarScope(c *Ctx, r *Reporter) {
	p, pkg := bytecodePkg(c, r)
	if pkg == nil {
		return
	}
	define := FindFunc(pkg, "(*SymbolTable).Define")
	enter := FindFunc(pkg, "(*Compiler).enterScope")
	leave := FindFunc(pkg, "(*Compiler).leaveScope")
	if define == nil || enter == nil || leave == nil {
		r.Undecided("Define/enterScope/leaveScope not found")
		return
	}
	defSSA, enterSSA, leaveSSA := p.SSAFunc(define.Obj), p.SSAFunc(enter.Obj), p.SSAFunc(leave.Obj)
	n := 0
	for _, fd := range Funcs(pkg) {
		sf := p.SSAFunc(fd.Obj)
		if sf == nil {
			continue
		}
		for _, ci := range callsTo(sf, defSSA) {
			// the defined name comes from a LoopVar field
			if !mentionsField(ci.Common().Args[1], "LoopVar", 6) {
				continue
			}
			n++
			okScope := false
			for _, e := range callsTo(sf, enterSSA) {
				if instrDominates(e.(ssa.Instruction), ci.(ssa.Instruction)) {
					for _, l := range callsTo(sf, leaveSSA) {
						if reachesBlock(ci.Block(), l.Block()) {
							okScope = true
						}
					}
				}
			}
			r.Check(okScope, fd.QName()+"#loopvar-scope", p.Rel(instrPos(ci.(ssa.Instruction))), "the loop variable lives in a scope of its own",
				"the loop variable is defined in the enclosing symbol table (no enterScope before Define): `i := 5` followed by `for i := range 3 … end` overwrites the outer i on the VM, while the evaluator keeps it (two live variables share a slot)")
		}
	}
	if n == 0 {
		r.Undecided("no Define of a loop variable found in the compiler")
	}
}

func mentionsField(v ssa.Value, field string, depth int) bool {
	if depth == 0 {
		return false
	}
	switch x := v.(type) {
	case *ssa.UnOp:
		return mentionsField(x.X, field, depth-1)
	case *ssa.FieldAddr:
		if _, name := fieldAddrInfo(x); name == field {
			return true
		}
		return mentionsField(x.X, field, depth-1)
	case *ssa.Field:
		if _, name := fieldValInfo(x); name == field {
			return true
		}
		return mentionsField(x.X, field, depth-1)
	case *ssa.IndexAddr:
		return mentionsField(x.X, field, depth-1)
	case *ssa.Index:
		return mentionsField(x.X, field, depth-1)
	}
	return false
}

// ---------------------------------------------------------------------------
// R-VMVALUES: value discipline of the VM (sibling of R-FRESH / R-MAPENC / R-DECLORDER)

var ruleVMValues = &Rule{
	ID:    "R-VMVALUES",
	Doc:   "VM value discipline: every array the VM builds gets freshly allocated backing storage (concatenation, repetition, slicing never alias an operand); an update of a local copy of a value struct is not lost (a field stored into a by-value copy that is never read again is a lost update); a declaration compiles its initialiser before it defines the variable (the initialiser sees the outer binding, as in the evaluator); a fresh break list never aliases the saved one",
	Floor: 5,
	Run:   runVMValues,
}

var ruleVMFresh = &Rule{
	ID:    "R-VMFRESH",
	Doc:   "every array the VM builds gets freshly allocated backing storage: concatenation, repetition and slicing never alias an operand",
	Floor: 2,
	Run:   func(c *Ctx, r *Reporter) { runVMValuesParts(c, r, true, false) },
}

func runVMValues(c *Ctx, r *Reporter) { runVMValuesParts(c, r, true, true) }

func runVMValuesParts(c *Ctx, r *Reporter, fresh, rest bool) {
	p, pkg := bytecodePkg(c, r)
	if pkg == nil {
		return
	}
	if !fresh {
		goto restPart
	}
	// (1) fresh backing storage
	for _, fd := range Funcs(pkg) {
		sf := p.SSAFunc(fd.Obj)
		if sf == nil {
			continue
		}
		n := 0
		for _, b := range sf.Blocks {
			for _, ins := range b.Instrs {
				a, ok := ins.(*ssa.Alloc)
				if !ok {
					continue
				}
				named := allocElemNamed(a)
				if named == nil || named.Obj().Name() != "arrayVal" || named.Obj().Pkg() != pkg.Types {
					continue
				}
				if wholeStructCopySource(a) != nil || isWholeStructCopy(a) {
					continue // copy of an existing array value (shared by design)
				}
				stores := fieldStores(a, "Elements")
				if len(stores) == 0 {
					continue
				}
				n++
				construct := fmt.Sprintf("%s#new-arrayVal[%d]", fd.QName(), n)
				okF := true
				for _, st := range stores {
					if !isFreshSlice(st.Val, 0) && !appendOntoOwnField(st, a) {
						okF = false
					}
				}
				r.Check(okF, construct, p.Rel(instrPos(a)), "the new array has backing storage of its own", "a new array value is built on storage that may belong to an operand (e.g. append(left.Elements, …)): a later index assignment through one array shows up in the other, unlike in the evaluator where concatenation/slicing/repetition return fresh containers")
			}
		}
	}
	// (1b) repetition: elements appended inside a loop are deep copies, never the operand's own elements
	if fd := FindFunc(pkg, "(*VM).Run"); fd != nil {
		run := p.SSAFunc(fd.Obj)
		n := 0
		var rblocks []*ssa.BasicBlock
		for _, h := range regionFns(run, 2, map[string]bool{"deepCopy": true, "push": true, "pop": true}) {
			rblocks = append(rblocks, h.Blocks...) // the repetition may live in a helper of Run (repeatArray)
		}
		for _, b := range rblocks {
			sf := b.Parent()
			for _, ins := range b.Instrs {
				call, ok := ins.(*ssa.Call)
				if !ok {
					continue
				}
				bi, ok := call.Call.Value.(*ssa.Builtin)
				if !ok || bi.Name() != "append" || len(call.Call.Args) != 2 {
					continue
				}
				// inside a loop of its own (in Run: nested in the instruction dispatch loop)
				h := loopHeaderOf(b)
				if h == nil {
					continue
				}
				nested := sf != run
				for _, h2 := range sf.Blocks {
					if h2 != h {
						if body := naturalLoop(h2); body != nil && body[h] {
							nested = true
						}
					}
				}
				if !nested {
					continue
				}
				src := call.Call.Args[1]
				if _, isSlice := src.Type().Underlying().(*types.Slice); !isSlice {
					continue
				}
				if es, ok := src.Type().Underlying().(*types.Slice); !ok || !types.IsInterface(es.Elem()) {
					continue
				}
				n++
				// the appended elements: Field Elements of a value that is the result of deepCopy (through a type assertion)
				deep := false
				if f, ok := src.(*ssa.Field); ok {
					v := f.X
					if ta, ok := v.(*ssa.TypeAssert); ok {
						v = ta.X
					}
					if c2, ok := v.(*ssa.Call); ok && c2.Call.StaticCallee() != nil && c2.Call.StaticCallee().Name() == "deepCopy" {
						deep = true
					}
				}
				r.Check(deep, fmt.Sprintf("%s#repeat-deep[%d]", fd.QName(), n), p.Rel(instrPos(call)), "elements appended repeatedly are deep copies of the operand",
					"a loop appends the operand's own elements again and again (array repetition): nested arrays and maps are then shared between the repetitions (`a := [[1]] * 2` `a[0][0] = 5` changes a[1] too), unlike in the evaluator, which deep-copies per repetition")
			}
		}
		if n == 0 {
			r.Undecided("no repeated append of value elements found in (*VM).Run (array repetition)")
		}
	}
restPart:
	if !rest {
		return
	}
	// (1c) a step range rejects a zero step before it decides whether to go on (the evaluator's newStepRange does)
	if fd := FindFunc(pkg, "(*VM).Run"); fd != nil {
		sf := p.SSAFunc(fd.Obj)
		found, guarded := 0, 0
		for _, b := range sf.Blocks {
			for _, ins := range b.Instrs {
				// the pair of tests step > 0 / step < 0 on one value marks the continuation test of a step range
				bo, ok := ins.(*ssa.BinOp)
				if !ok || bo.Op != token.GTR {
					continue
				}
				k, ok := bo.Y.(*ssa.Const)
				if !ok || k.Value == nil || k.Value.ExactString() != "0" || !isNamed(bo.X.Type(), pkg.PkgPath, "numVal") {
					continue
				}
				// is the same value also compared == 0 / != 0 on a dominating edge that leaves with an error?
				found++
				for _, ref := range *bo.X.Referrers() {
					z, ok := ref.(*ssa.BinOp)
					if !ok || (z.Op != token.EQL && z.Op != token.NEQ) || z.X != bo.X {
						continue
					}
					zk, ok := z.Y.(*ssa.Const)
					if !ok || zk.Value == nil || zk.Value.ExactString() != "0" {
						continue
					}
					for _, r2 := range *z.Referrers() {
						ifi, ok := r2.(*ssa.If)
						if !ok {
							continue
						}
						errEdge, goEdge := 0, 1
						if z.Op == token.NEQ {
							errEdge, goEdge = 1, 0
						}
						if onlyErrorReturns(ifi.Block().Succs[errEdge], map[*ssa.BasicBlock]bool{}) && edgeDominates(ifi.Block(), goEdge, b) {
							guarded++
						}
					}
				}
			}
		}
		if found == 0 {
			r.Undecided("no step-range continuation test (step > 0) found in (*VM).Run")
		} else {
			r.Check(guarded >= found, fd.QName()+"#zero-step-rejected", p.Rel(fd.Decl.Pos()), "a zero step ends the run with an error before the continuation test",
				"the step-range instruction tests step > 0 / step < 0 without rejecting step == 0 first: `for i := range 1 5 0` silently runs zero times on the VM while the evaluator reports `step cannot be 0`")
		}
	}
	// (2) lost updates on by-value copies
	for _, fd := range Funcs(pkg) {
		sf := p.SSAFunc(fd.Obj)
		if sf == nil {
			continue
		}
		lost := map[string]ssa.Instruction{}
		for _, b := range sf.Blocks {
			for _, ins := range b.Instrs {
				a, ok := ins.(*ssa.Alloc)
				if !ok {
					continue
				}
				named := allocElemNamed(a)
				if named == nil || named.Obj().Pkg() != pkg.Types {
					continue
				}
				if _, isStruct := named.Underlying().(*types.Struct); !isStruct {
					continue
				}
				if !isWholeStructCopy(a) {
					continue
				}
				// field stores into the copy
				for _, ref := range *a.Referrers() {
					fa, ok := ref.(*ssa.FieldAddr)
					if !ok {
						continue
					}
					_, fname := fieldAddrInfo(fa)
					for _, r2 := range *fa.Referrers() {
						st, ok := r2.(*ssa.Store)
						if !ok || st.Addr != ssa.Value(fa) {
							continue
						}
						if !copyReadAfter(a, st) {
							lost[named.Obj().Name()+"."+fname] = st
						}
					}
				}
			}
		}
		keys := []string{}
		for k := range lost {
			keys = append(keys, k)
		}
		sort.Strings(keys)
		for _, k := range keys {
			r.Viol(fd.QName()+"#lost-update:"+k, p.Rel(instrPos(lost[k])), "a field ("+k+") is assigned on a by-value copy of the value that is never read again: the update is lost (for maps: a key added by index assignment never appears in the key order, so it is neither printed nor iterated)")
		}
		if len(keys) == 0 && fd.Name() == "(*VM).Run" {
			r.Ok(fd.QName()+"#lost-update", p.Rel(fd.Decl.Pos()), "no update of a by-value copy is lost")
		}
	}
	// (3) declaration order
	if fd := FindFunc(pkg, "(*Compiler).compileDecl"); fd != nil {
		sf := p.SSAFunc(fd.Obj)
		def := FindFunc(pkg, "(*SymbolTable).Define")
		comp := FindFunc(pkg, "(*Compiler).Compile")
		if def != nil && comp != nil {
			defs, comps := callsTo(sf, p.SSAFunc(def.Obj)), callsTo(sf, p.SSAFunc(comp.Obj))
			okOrder := len(defs) == 1 && len(comps) >= 1
			if okOrder {
				for _, cc := range comps {
					if !instrDominates(cc.(ssa.Instruction), defs[0].(ssa.Instruction)) {
						okOrder = false
					}
				}
			}
			r.Check(okOrder, fd.QName()+"#value-before-define", p.Rel(fd.Decl.Pos()), "the initialiser is compiled before the variable is defined", "compileDecl must compile the initialiser before Define: `x := x + 1` in an inner block has to read the outer x (as the evaluator does), not the new, still unset slot")
		}
	} else {
		r.Undecided("(*Compiler).compileDecl not found")
	}
	// (4) break list freshness
	for _, fd := range Funcs(pkg) {
		sf := p.SSAFunc(fd.Obj)
		if sf == nil {
			continue
		}
		n := 0
		for _, b := range sf.Blocks {
			for _, ins := range b.Instrs {
				st, ok := ins.(*ssa.Store)
				if !ok {
					continue
				}
				fa, ok := st.Addr.(*ssa.FieldAddr)
				if !ok || fieldName(fa) != "breaks" {
					continue
				}
				sl, ok := st.Val.(*ssa.Slice)
				if !ok {
					continue
				}
				n++
				_, fromAlloc := sl.X.(*ssa.Alloc)
				r.Check(fromAlloc, fmt.Sprintf("%s#fresh-breaks[%d]", fd.QName(), n), p.Rel(instrPos(st)), "the inner loop's break list is a fresh slice", "the break list of an inner loop is a reslice of the saved outer list (shared backing array): break positions of the outer loop get overwritten and are never patched")
			}
		}
	}
}

// appendOntoOwnField: x.Elements = append(x.Elements, …) on the same fresh alloc.
func appendOntoOwnField(st *ssa.Store, a *ssa.Alloc) bool {
	call, ok := st.Val.(*ssa.Call)
	if !ok {
		return false
	}
	bi, ok := call.Call.Value.(*ssa.Builtin)
	if !ok || bi.Name() != "append" {
		return false
	}
	u, ok := call.Call.Args[0].(*ssa.UnOp)
	if !ok {
		return false
	}
	fa, ok := u.X.(*ssa.FieldAddr)
	if !ok || fa.X != ssa.Value(a) {
		return false
	}
	// every earlier store to the field is fresh (or such an append)
	for _, s2 := range fieldStores(a, fieldName(fa)) {
		if s2 == st {
			continue
		}
		if !isFreshSlice(s2.Val, 0) && !(s2 != st && appendOntoOwnFieldShallow(s2, a)) {
			return false
		}
	}
	return true
}

func appendOntoOwnFieldShallow(st *ssa.Store, a *ssa.Alloc) bool {
	call, ok := st.Val.(*ssa.Call)
	if !ok {
		return false
	}
	bi, ok := call.Call.Value.(*ssa.Builtin)
	if !ok || bi.Name() != "append" {
		return false
	}
	u, ok := call.Call.Args[0].(*ssa.UnOp)
	if !ok {
		return false
	}
	fa, ok := u.X.(*ssa.FieldAddr)
	return ok && fa.X == ssa.Value(a)
}

// copyReadAfter: after st, the copy a is loaded (whole or the stored field) or its address escapes.
func copyReadAfter(a *ssa.Alloc, st *ssa.Store) bool {
	after := func(ins ssa.Instruction) bool {
		if ins.Block() == st.Block() {
			return instrDominates(st, ins) && ins != ssa.Instruction(st)
		}
		return reachesBlock(st.Block(), ins.Block())
	}
	stFA := st.Addr.(*ssa.FieldAddr)
	for _, ref := range *a.Referrers() {
		switch x := ref.(type) {
		case *ssa.UnOp: // whole load
			if after(x) {
				return true
			}
		case *ssa.FieldAddr:
			if x.Field != stFA.Field {
				continue
			}
			for _, r2 := range *x.Referrers() {
				if u, ok := r2.(*ssa.UnOp); ok && after(u) {
					// a load that only feeds the stored value itself (append(x.f, …)) precedes the store
					return true
				}
			}
		case *ssa.Call, *ssa.MakeInterface, *ssa.MakeClosure:
			if after(x.(ssa.Instruction)) {
				return true
			}
		case *ssa.Store:
			if x.Val == ssa.Value(a) {
				return true // address stored somewhere
			}
		}
	}
	return false
}

// listPatcher: h ranges its idx-th parameter (a list of jump positions) into changeOperand, in a loop that every
// success path of h passes: handing h a list patches every position in it.
func listPatcher(h *ssa.Function, idx int, change *ssa.Function) bool {
	if h == nil || len(h.Blocks) == 0 || idx >= len(h.Params) {
		return false
	}
	prm := h.Params[idx]
	if _, isSlice := prm.Type().Underlying().(*types.Slice); !isSlice {
		return false
	}
	var fromParam func(v ssa.Value, depth int) bool
	fromParam = func(v ssa.Value, depth int) bool {
		if depth > 6 {
			return false
		}
		switch x := v.(type) {
		case *ssa.Parameter:
			return x == prm
		case *ssa.UnOp:
			return fromParam(x.X, depth+1)
		case *ssa.IndexAddr:
			return fromParam(x.X, depth+1)
		case *ssa.Index:
			return fromParam(x.X, depth+1)
		case *ssa.Extract:
			return fromParam(x.Tuple, depth+1)
		case *ssa.Next:
			return fromParam(x.Iter, depth+1)
		case *ssa.Range:
			return fromParam(x.X, depth+1)
		case *ssa.Slice:
			return fromParam(x.X, depth+1)
		}
		return false
	}
	var loops []*ssa.BasicBlock
	for _, b := range h.Blocks {
		for _, ins := range b.Instrs {
			if c, ok := ins.(*ssa.Call); ok && c.Call.StaticCallee() == change && inCycle(b) && len(c.Call.Args) >= 2 && fromParam(c.Call.Args[1], 0) {
				if hd := loopHeaderOf(b); hd != nil {
					loops = append(loops, hd)
				}
			}
		}
	}
	return len(loops) > 0 && successPathAvoiding(h.Blocks[0], loops) == ""
}
