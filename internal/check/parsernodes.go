package check

import (
	"fmt"
	"go/token"
	"go/types"
	"sort"
	"strings"

	"golang.org/x/tools/go/packages"
	"golang.org/x/tools/go/ssa"
)

func parserPkg(c *Ctx, r *Reporter) (*Program, *packages.Package) {
	p, err := c.Default()
	if err != nil {
		r.Undecided("%v", err)
		return nil, nil
	}
	pkg := p.Pkg("pkg/parser")
	if pkg == nil {
		r.Undecided("package pkg/parser not loaded")
		return nil, nil
	}
	return p, pkg
}

func allocElemNamed(a *ssa.Alloc) *types.Named {
	pt, ok := a.Type().Underlying().(*types.Pointer)
	if !ok {
		return nil
	}
	return namedOf(pt.Elem())
}

// fieldStores returns all stores to the named field of alloc a, including
// stores through a load of a local field that holds a (x.F = a; x.F.T = …).
func fieldStores(a *ssa.Alloc, field string) []*ssa.Store {
	var out []*ssa.Store
	fn := a.Parent()
	for _, b := range fn.Blocks {
		for _, ins := range b.Instrs {
			st, ok := ins.(*ssa.Store)
			if !ok {
				continue
			}
			fa, ok := st.Addr.(*ssa.FieldAddr)
			if !ok {
				continue
			}
			if _, name := fieldAddrInfo(fa); name != field {
				continue
			}
			if fa.X == ssa.Value(a) || resolveLocalFieldLoadOnce(fa.X) == ssa.Value(a) {
				out = append(out, st)
			}
		}
	}
	return out
}

// resolveLocalFieldLoadOnce: v = load of field f of a local Alloc whose field f is stored exactly once (directly) → the stored value.
func resolveLocalFieldLoadOnce(v ssa.Value) ssa.Value {
	u, ok := v.(*ssa.UnOp)
	if !ok {
		return v
	}
	fa, ok := u.X.(*ssa.FieldAddr)
	if !ok {
		return v
	}
	owner, ok := fa.X.(*ssa.Alloc)
	if !ok {
		return v
	}
	var vals []ssa.Value
	for _, ref := range *owner.Referrers() {
		fa2, ok := ref.(*ssa.FieldAddr)
		if !ok || fa2.Field != fa.Field {
			continue
		}
		for _, r2 := range *fa2.Referrers() {
			if st, ok := r2.(*ssa.Store); ok && st.Addr == ssa.Value(fa2) {
				vals = append(vals, st.Val)
			}
		}
	}
	if len(vals) == 1 {
		return vals[0]
	}
	return v
}

// ---------------------------------------------------------------------------
// R-FIXED

var ruleFixed = &Rule{
	ID:    "R-FIXED",
	Doc:   "every non-literal expression node (index, dot, slice, binary, type assertion), every declared/loop/parameter variable and every function return type built by the parser carries a type obtained through fixedType(…) or an interned basic type — only literals may keep a convertible composite type",
	Floor: 6,
	Run:   runFixed,
}

var internedTypes = map[string]bool{"NUM_TYPE": true, "STRING_TYPE": true, "BOOL_TYPE": true, "ANY_TYPE": true, "NONE_TYPE": true}

func runFixed(c *Ctx, r *Reporter) {
	p, pkg := parserPkg(c, r)
	if pkg == nil {
		return
	}
	fixedFn := FindFunc(pkg, "fixedType")
	if fixedFn == nil {
		r.Undecided("fixedType not found")
		return
	}
	fixedSSA := p.SSAFunc(fixedFn.Obj)
	wrapAnyLooksThroughGroups(p, pkg, r)
	// node types with a field of type *Type that denotes the node's own static type
	targets := map[string]string{} // type name -> field
	nodes, _ := parserNodeTypes(p)
	for _, n := range nodes {
		st, ok := n.Underlying().(*types.Struct)
		if !ok {
			continue
		}
		name := n.Obj().Name()
		if strings.HasSuffix(name, "Literal") || name == "ReturnStmt" {
			continue // literals keep a convertible type; ReturnStmt.T mirrors its value's type
		}
		for i := 0; i < st.NumFields(); i++ {
			f := st.Field(i)
			if pt, ok := f.Type().(*types.Pointer); ok && isNamed(pt.Elem(), pkg.PkgPath, "Type") && (f.Name() == "T" || f.Name() == "ReturnType") {
				targets[name] = f.Name()
			}
		}
	}
	if len(targets) < 5 {
		r.Undecided("only %d typed expression node kinds found", len(targets))
		return
	}
	okSource := func(v ssa.Value) (bool, string) {
		switch x := v.(type) {
		case *ssa.Call:
			if x.Call.StaticCallee() == fixedSSA {
				return true, "fixedType(…)"
			}
			if fixedHelper(x.Call.StaticCallee(), fixedSSA, 0) {
				return true, "result of " + x.Call.StaticCallee().Name() + ", which returns fixedType(…) or nil on every path"
			}
			return false, "result of " + x.Call.String()
		case *ssa.UnOp:
			if g, ok := x.X.(*ssa.Global); ok && internedTypes[g.Name()] {
				return true, "interned " + g.Name()
			}
			return false, "load " + x.X.String()
		case *ssa.Const:
			if x.IsNil() {
				return true, "nil (previous error)"
			}
		case *ssa.Phi:
			for _, e := range x.Edges {
				if ok, _ := func() (bool, string) { return okSourceRec(e, fixedSSA, 0) }(); !ok {
					return false, "phi with a non-fixed edge"
				}
			}
			return true, "phi of fixed types"
		}
		return false, v.String()
	}
	counts := map[string]int{}
	for _, fd := range Funcs(pkg) {
		sf := p.SSAFunc(fd.Obj)
		if sf == nil || fd.Name() == "fixedType" {
			continue
		}
		for _, fn := range withAnon(sf) {
			for _, b := range fn.Blocks {
				for _, ins := range b.Instrs {
					a, ok := ins.(*ssa.Alloc)
					if !ok {
						continue
					}
					named := allocElemNamed(a)
					if named == nil || named.Obj().Pkg() != pkg.Types {
						continue
					}
					field, ok := targets[named.Obj().Name()]
					if !ok {
						continue
					}
					stores := fieldStores(a, field)
					if len(stores) == 0 {
						if src := wholeStructCopySource(a); src != nil && derivesFromBuiltinsParam(src, 8) {
							counts[fd.QName()+":"+named.Obj().Name()]++
							construct := fmt.Sprintf("%s#copy-%s.%s[%d]", fd.QName(), named.Obj().Name(), field, counts[fd.QName()+":"+named.Obj().Name()])
							r.Viol(construct, p.Rel(instrPos(a)), fmt.Sprintf("a %s handed in through parser.Builtins is copied without passing its %s through fixedType: results of built-ins would be convertible like literals (e.g. `a:[]any` `a = split …` is accepted and wrapAny panics)", named.Obj().Name(), field))
						}
						continue // v2 := *v : copy of a node the parser built itself
					}
					counts[fd.QName()+":"+named.Obj().Name()]++
					construct := fmt.Sprintf("%s#new-%s.%s[%d]", fd.QName(), named.Obj().Name(), field, counts[fd.QName()+":"+named.Obj().Name()])
					bad := ""
					var badPos token.Pos
					for _, st := range stores {
						if ok, _ := okSource(st.Val); ok {
							continue
						}
						if !possiblyFinalStore(st, stores, a, field) {
							continue
						}
						_, desc := okSource(st.Val)
						bad = desc
						badPos = instrPos(st)
					}
					if bad == "" {
						r.Ok(construct, p.Rel(instrPos(a)), "type comes from fixedType or an interned basic type on every path")
					} else {
						r.Viol(construct, p.Rel(badPos), fmt.Sprintf("%s.%s can end up as %s, which is not passed through fixedType: a non-literal expression with a convertible composite type is accepted where only literals convert (e.g. assigning it to an []any), and wrapAny then panics", named.Obj().Name(), field, bad))
					}
				}
			}
		}
	}
}

func okSourceRec(v ssa.Value, fixedSSA *ssa.Function, depth int) (bool, string) {
	if depth > 4 {
		return false, ""
	}
	switch x := v.(type) {
	case *ssa.Call:
		if x.Call.StaticCallee() == fixedSSA {
			return true, ""
		}
		return fixedHelper(x.Call.StaticCallee(), fixedSSA, depth), ""
	case *ssa.UnOp:
		if g, ok := x.X.(*ssa.Global); ok && internedTypes[g.Name()] {
			return true, ""
		}
	case *ssa.Const:
		return x.IsNil(), ""
	case *ssa.Phi:
		for _, e := range x.Edges {
			if ok, _ := okSourceRec(e, fixedSSA, depth+1); !ok {
				return false, ""
			}
		}
		return true, ""
	}
	return false, ""
}

// fixedHelper: a function of the same package with one result, every return of which hands out a fixed type (or nil):
// `fd.ReturnType = p.parseReturnType()` with parseReturnType ending in `return fixedType(t)`.
func fixedHelper(f *ssa.Function, fixedSSA *ssa.Function, depth int) bool {
	if f == nil || fixedSSA == nil || f.Pkg != fixedSSA.Pkg || len(f.Blocks) == 0 || f.Signature.Results().Len() != 1 || depth > 2 {
		return false
	}
	rets := returnsOf(f)
	for _, ret := range rets {
		if ok, _ := okSourceRec(ret.Results[0], fixedSSA, depth+2); !ok {
			return false
		}
	}
	return len(rets) > 0
}

// wholeStructCopySource: for `x := *src`, the pointer src.
func wholeStructCopySource(a *ssa.Alloc) ssa.Value {
	for _, ref := range *a.Referrers() {
		if st, ok := ref.(*ssa.Store); ok && st.Addr == ssa.Value(a) {
			if u, ok := st.Val.(*ssa.UnOp); ok && u.Op == token.MUL {
				return u.X
			}
		}
	}
	return nil
}

// derivesFromBuiltinsParam: v is obtained from a parameter of type parser.Builtins (field, map lookup, range).
func derivesFromBuiltinsParam(v ssa.Value, depth int) bool {
	if depth == 0 {
		return false
	}
	switch x := v.(type) {
	case *ssa.Parameter:
		n := namedOf(x.Type())
		return n != nil && n.Obj().Name() == "Builtins"
	case *ssa.Extract:
		return derivesFromBuiltinsParam(x.Tuple, depth-1)
	case *ssa.Next:
		return derivesFromBuiltinsParam(x.Iter, depth-1)
	case *ssa.Range:
		return derivesFromBuiltinsParam(x.X, depth-1)
	case *ssa.Lookup:
		return derivesFromBuiltinsParam(x.X, depth-1)
	case *ssa.Field:
		return derivesFromBuiltinsParam(x.X, depth-1)
	case *ssa.FieldAddr:
		return derivesFromBuiltinsParam(x.X, depth-1)
	case *ssa.UnOp:
		return derivesFromBuiltinsParam(x.X, depth-1)
	case *ssa.Alloc:
		// local copy of the parameter
		for _, ref := range *x.Referrers() {
			if st, ok := ref.(*ssa.Store); ok && st.Addr == ssa.Value(x) && derivesFromBuiltinsParam(st.Val, depth-1) {
				return true
			}
		}
	}
	return false
}

func isWholeStructCopy(a *ssa.Alloc) bool {
	for _, ref := range *a.Referrers() {
		if st, ok := ref.(*ssa.Store); ok && st.Addr == ssa.Value(a) {
			return true
		}
	}
	return false
}

// possiblyFinalStore: some path from st to a return reaches no later store to
// the same field, ignoring paths through the false edge of `if x.F != nil`.
func possiblyFinalStore(st *ssa.Store, all []*ssa.Store, a *ssa.Alloc, field string) bool {
	blockStores := map[*ssa.BasicBlock][]*ssa.Store{}
	for _, s := range all {
		blockStores[s.Block()] = append(blockStores[s.Block()], s)
	}
	// later store in the same block?
	after := false
	for _, ins := range st.Block().Instrs {
		if ins == ssa.Instruction(st) {
			after = true
			continue
		}
		if after {
			if s2, ok := ins.(*ssa.Store); ok {
				for _, s := range all {
					if s == s2 {
						return false
					}
				}
			}
		}
	}
	seen := map[*ssa.BasicBlock]bool{}
	var walk func(b *ssa.BasicBlock) bool
	succs := func(b *ssa.BasicBlock) []*ssa.BasicBlock {
		if len(b.Instrs) > 0 {
			if ifi, ok := b.Instrs[len(b.Instrs)-1].(*ssa.If); ok {
				if bo, ok := ifi.Cond.(*ssa.BinOp); ok {
					if k, ok := bo.Y.(*ssa.Const); ok && k.IsNil() {
						if u, ok := bo.X.(*ssa.UnOp); ok {
							if fa, ok := u.X.(*ssa.FieldAddr); ok && fa.X == ssa.Value(a) {
								if _, name := fieldAddrInfo(fa); name == field {
									// field == nil edge: nothing to fix on that path
									if bo.Op == token.NEQ {
										return b.Succs[:1]
									}
									if bo.Op == token.EQL {
										return b.Succs[1:]
									}
								}
							}
						}
					}
				}
			}
		}
		return b.Succs
	}
	walk = func(b *ssa.BasicBlock) bool {
		if seen[b] {
			return false
		}
		seen[b] = true
		if len(blockStores[b]) > 0 && b != st.Block() {
			return false
		}
		if len(b.Instrs) > 0 {
			if ret, ok := b.Instrs[len(b.Instrs)-1].(*ssa.Return); ok {
				return !returnsOnlyNil(ret)
			}
		}
		for _, s := range succs(b) {
			if walk(s) {
				return true
			}
		}
		return false
	}
	seen[st.Block()] = true
	if len(st.Block().Instrs) > 0 {
		if ret, ok := st.Block().Instrs[len(st.Block().Instrs)-1].(*ssa.Return); ok {
			return !returnsOnlyNil(ret)
		}
	}
	for _, s := range succs(st.Block()) {
		if walk(s) {
			return true
		}
	}
	return false
}

// returnsOnlyNil: the first result of ret is the nil constant (the node under construction is discarded).
func returnsOnlyNil(ret *ssa.Return) bool {
	if len(ret.Results) == 0 {
		return false
	}
	for _, v := range resultValues(ret, 0) {
		k, ok := v.(*ssa.Const)
		if !ok || !k.IsNil() {
			return false
		}
	}
	return true
}

// resolveLocalFieldLoad: see resolveLocalFieldLoadOnce.
func resolveLocalFieldLoad(v ssa.Value) ssa.Value { return resolveLocalFieldLoadOnce(v) }

// ---------------------------------------------------------------------------
// R-ACCEPTWRAP

var ruleAcceptWrap = &Rule{
	ID:    "R-ACCEPTWRAP",
	Doc:   "every use of the assignability test `target.accepts(valueType)` is paired with wrapAny(value, sameTarget) on the accepted edge: a value enters an any-typed (or any-element) slot only wrapped, so the evaluator finds an anyVal with a concrete type where the static type says any; the element type combineTypes infers for a literal is applied to every element (wrapAny(e, combined)) on every path to the literal's return",
	Floor: 3,
	Run:   runAcceptWrap,
}

func runAcceptWrap(c *Ctx, r *Reporter) {
	p, pkg := parserPkg(c, r)
	if pkg == nil {
		return
	}
	acc, wrap := FindFunc(pkg, "(*Type).accepts"), FindFunc(pkg, "wrapAny")
	if acc == nil || wrap == nil {
		r.Undecided("accepts/wrapAny not found")
		return
	}
	accSSA, wrapSSA := p.SSAFunc(acc.Obj), p.SSAFunc(wrap.Obj)
	for _, fd := range Funcs(pkg) {
		sf := p.SSAFunc(fd.Obj)
		if sf == nil || sf == accSSA {
			continue
		}
		n := 0
		for _, b := range sf.Blocks {
			for _, ins := range b.Instrs {
				call, ok := ins.(*ssa.Call)
				if !ok || call.Call.StaticCallee() != accSSA {
					continue
				}
				n++
				construct := fmt.Sprintf("%s#accepts[%d]", fd.QName(), n)
				target := call.Call.Args[0]
				found := false
				for _, b2 := range sf.Blocks {
					for _, ins2 := range b2.Instrs {
						w, ok := ins2.(*ssa.Call)
						if !ok || w.Call.StaticCallee() != wrapSSA {
							continue
						}
						if !sameValueExpr(w.Call.Args[1], target, 6) {
							continue
						}
						// the wrap lies on the accepted side: not reachable only through the rejected edge
						if onAcceptedSide(call, w) {
							found = true
						}
					}
				}
				r.Check(found, construct, p.Rel(instrPos(call)), "accepted value is passed through wrapAny with the same target type", "no wrapAny(value, <same target>) on the accepted edge of this accepts() test: a value accepted for an `any` slot would reach the evaluator unwrapped")
			}
		}
	}
	// the element type that combineTypes infers for a literal is applied to every element: the literal's parser converts
	// its elements with wrapAny(e, combined) in a loop (or through a helper) that every return behind the combineTypes
	// call has passed — not only when some condition on the types holds
	comb := FindFunc(pkg, "combineTypes")
	if comb == nil {
		r.Undecided("combineTypes not found")
		return
	}
	combSSA := p.SSAFunc(comb.Obj)
	wrapsWith := func(fn *ssa.Function, typ ssa.Value) []*ssa.Call {
		var out []*ssa.Call
		for _, b := range fn.Blocks {
			for _, ins := range b.Instrs {
				if w, ok := ins.(*ssa.Call); ok && w.Call.StaticCallee() == wrapSSA && len(w.Call.Args) == 2 && w.Call.Args[1] == typ {
					out = append(out, w)
				}
			}
		}
		return out
	}
	for _, fd := range Funcs(pkg) {
		sf := p.SSAFunc(fd.Obj)
		if sf == nil || sf == combSSA {
			continue
		}
		// helpers of the type computation itself (combineTypePair(a, b) *Type) have no elements to convert
		typeLevel := false
		for res, i := sf.Signature.Results(), 0; i < res.Len(); i++ {
			if types.Identical(res.At(i).Type(), combSSA.Signature.Results().At(0).Type()) {
				typeLevel = true
			}
		}
		if typeLevel {
			continue
		}
		n := 0
		for _, ci := range callsTo(sf, combSSA) {
			call, ok := ci.(*ssa.Call)
			if !ok {
				continue
			}
			n++
			construct := fmt.Sprintf("%s#combineTypes[%d]:applied-to-every-element", fd.QName(), n)
			// conversion sites: wrapAny(_, combined) here, or a helper that is handed the combined type and does it
			var sites []ssa.Instruction
			for _, w := range wrapsWith(sf, call) {
				sites = append(sites, w)
			}
			for _, b := range sf.Blocks {
				for _, ins := range b.Instrs {
					h, ok := ins.(*ssa.Call)
					if !ok || h.Call.StaticCallee() == nil || h.Call.StaticCallee() == wrapSSA || len(h.Call.StaticCallee().Blocks) == 0 {
						continue
					}
					for i, a := range h.Call.Args {
						if a == ssa.Value(call) && i < len(h.Call.StaticCallee().Params) && len(wrapsWith(h.Call.StaticCallee(), h.Call.StaticCallee().Params[i])) > 0 {
							sites = append(sites, h)
						}
					}
				}
			}
			if len(sites) == 0 {
				r.Viol(construct, p.Rel(instrPos(call)), "the type inferred by combineTypes is never applied to the elements with wrapAny: an element narrower than the combined type reaches the evaluator unwrapped (`[[\"a\" 1] [2]]`)")
				continue
			}
			var headers []*ssa.BasicBlock
			for _, b := range sf.Blocks {
				if naturalLoop(b) != nil {
					headers = append(headers, b)
				}
			}
			good := false
			for _, site := range sites {
				anchor := site.Block()
				if h := innermostLoopOf(sf, anchor, headers); h != nil {
					anchor = h
				}
				all := true
				for _, ret := range returnsOf(sf) {
					if returnsOnlyNil(ret) || !call.Block().Dominates(ret.Block()) {
						continue
					}
					if !anchor.Dominates(ret.Block()) {
						all = false
					}
				}
				if all {
					good = true
				}
			}
			r.Check(good, construct, p.Rel(instrPos(call)), "the combined element type is applied to every element on every path to the literal's return",
				"the conversion of the elements with wrapAny(e, combined) is skipped on some path behind combineTypes: the literal gets the combined type but an element that is narrower "+
					"(the first element already had the widest type: `[[\"a\" 1] [2]]`, `a:any  x := [a 1]`) stays unwrapped, and the evaluator finds a bare value where the static type says any")
		}
	}
}

// sameValueExpr: structural equality of two SSA values (loads of the same field path, same calls on same receivers).
func sameValueExpr(a, b ssa.Value, depth int) bool {
	if a == b {
		return true
	}
	if depth == 0 {
		return false
	}
	switch x := a.(type) {
	case *ssa.UnOp:
		y, ok := b.(*ssa.UnOp)
		return ok && x.Op == y.Op && sameValueExpr(x.X, y.X, depth-1)
	case *ssa.FieldAddr:
		y, ok := b.(*ssa.FieldAddr)
		return ok && x.Field == y.Field && sameValueExpr(x.X, y.X, depth-1)
	case *ssa.Call:
		y, ok := b.(*ssa.Call)
		if !ok || len(x.Call.Args) != len(y.Call.Args) {
			return false
		}
		if x.Call.IsInvoke() != y.Call.IsInvoke() {
			return false
		}
		if x.Call.IsInvoke() {
			if x.Call.Method != y.Call.Method || !sameValueExpr(x.Call.Value, y.Call.Value, depth-1) {
				return false
			}
		} else if bx, ok := x.Call.Value.(*ssa.Builtin); ok {
			by, ok := y.Call.Value.(*ssa.Builtin)
			if !ok || bx.Name() != by.Name() || bx.Name() != "len" {
				return false
			}
		} else if x.Call.StaticCallee() == nil || x.Call.StaticCallee() != y.Call.StaticCallee() {
			return false
		}
		for i := range x.Call.Args {
			if !sameValueExpr(x.Call.Args[i], y.Call.Args[i], depth-1) {
				return false
			}
		}
		return true
	case *ssa.BinOp:
		y, ok := b.(*ssa.BinOp)
		return ok && x.Op == y.Op && sameValueExpr(x.X, y.X, depth-1) && sameValueExpr(x.Y, y.Y, depth-1)
	case *ssa.Const:
		y, ok := b.(*ssa.Const)
		return ok && x.Value != nil && y.Value != nil && x.Value.ExactString() == y.Value.ExactString() && types.Identical(x.Type(), y.Type())
	case *ssa.Convert:
		y, ok := b.(*ssa.Convert)
		return ok && types.Identical(x.Type(), y.Type()) && sameValueExpr(x.X, y.X, depth-1)
	case *ssa.Index:
		y, ok := b.(*ssa.Index)
		return ok && sameValueExpr(x.X, y.X, depth-1) && sameValueExpr(x.Index, y.Index, depth-1)
	case *ssa.IndexAddr:
		y, ok := b.(*ssa.IndexAddr)
		return ok && sameValueExpr(x.X, y.X, depth-1) && sameValueExpr(x.Index, y.Index, depth-1)
	}
	return false
}

// onAcceptedSide: w is reachable from the edge on which accepts() is true and
// not dominated by the edge on which it is false.
func onAcceptedSide(acc *ssa.Call, w *ssa.Call) bool {
	blk := acc.Block()
	ifi, ok := blk.Instrs[len(blk.Instrs)-1].(*ssa.If)
	if !ok {
		return reachesBlock(blk, w.Block())
	}
	trueEdge, falseEdge := 0, 1
	cond := ifi.Cond
	if u, ok := cond.(*ssa.UnOp); ok && u.Op == token.NOT {
		cond = u.X
		trueEdge, falseEdge = 1, 0
	}
	if cond != ssa.Value(acc) {
		return reachesBlock(blk, w.Block())
	}
	t, f := blk.Succs[trueEdge], blk.Succs[falseEdge]
	if f == w.Block() || (f.Dominates(w.Block()) && len(f.Preds) == 1) {
		return false
	}
	return reachesBlock(t, w.Block())
}

// ---------------------------------------------------------------------------
// R-SCOPETYPE

var ruleScopeType = &Rule{
	ID:    "R-SCOPETYPE",
	Doc:   "every variable that enters a parser scope has a resolved (non-nil) type on that path: it is freshly built with a type, or the scope.set call is guarded by a non-nil test of its type",
	Floor: 5,
	Run:   runScopeType,
}

var scopeTypeExempt = map[string]string{
	"pkg/parser.(*parser).parseProgram#scope.set[1]": "built-in globals (err, errmsg) come from the evaluator's table, each constructed with a type; no user text is involved",
}

func runScopeType(c *Ctx, r *Reporter) {
	p, pkg := parserPkg(c, r)
	if pkg == nil {
		return
	}
	setFn := FindFunc(pkg, "(*scope).set")
	if setFn == nil {
		r.Undecided("(*scope).set not found")
		return
	}
	setSSA := p.SSAFunc(setFn.Obj)
	for _, fd := range Funcs(pkg) {
		sf := p.SSAFunc(fd.Obj)
		if sf == nil {
			continue
		}
		n := 0
		for _, b := range sf.Blocks {
			for _, ins := range b.Instrs {
				call, ok := ins.(*ssa.Call)
				if !ok || call.Call.StaticCallee() != setSSA {
					continue
				}
				n++
				construct := fmt.Sprintf("%s#scope.set[%d]", fd.QName(), n)
				v := call.Call.Args[2]
				var at ssa.Instruction = call // the point every path to the call has passed
				if pv, via := guardedPhiValue(v, call); pv != nil && len(via.Instrs) > 0 {
					v = pv // `if loopVar != nil { scope.set(…, loopVar) }`: the variable built on the other path
					at = via.Instrs[len(via.Instrs)-1]
				}
				why := ""
				okv := false
				if a, ok := resolveLocalFieldLoad(v).(*ssa.Alloc); ok {
					for _, st := range fieldStores(a, "T") {
						if k, isConst := st.Val.(*ssa.Const); isConst && k.IsNil() {
							continue
						}
						if instrDominates(st, at) {
							okv = true
							why = "fresh variable with its type set before it enters the scope"
						}
					}
				}
				if !okv {
					// a store X.T = <non-nil> through the same access path as v dominates the call
					for _, b3 := range sf.Blocks {
						for _, ins3 := range b3.Instrs {
							st, ok := ins3.(*ssa.Store)
							if !ok {
								continue
							}
							fa, ok := st.Addr.(*ssa.FieldAddr)
							if !ok {
								continue
							}
							if _, name := fieldAddrInfo(fa); name != "T" {
								continue
							}
							if k, isConst := st.Val.(*ssa.Const); isConst && k.IsNil() {
								continue
							}
							if (fa.X == v || sameValueExpr(fa.X, v, 5)) && instrDominates(st, call) {
								okv = true
								why = "the variable's type is assigned before it enters the scope"
							}
						}
					}
				}
				if !okv && typeNonNilGuard(call, v) {
					okv = true
					why = "guarded by a non-nil test of the variable's type"
				}
				switch {
				case okv:
					r.Ok(construct, p.Rel(instrPos(call)), why)
				case scopeTypeExempt[construct] != "":
					r.Exempt(construct, p.Rel(instrPos(call)), scopeTypeExempt[construct])
				default:
					r.Viol(construct, p.Rel(instrPos(call)), "a variable whose type may be nil (invalid type in the source) is added to the scope: later uses dereference the nil type and crash the parser")
				}
			}
		}
	}
}

// typeNonNilGuard: call is dominated by the non-nil edge of a test `X.Type() != nil` / `X.T != nil`
// where X is v or an object v was loaded from.
func typeNonNilGuard(call *ssa.Call, v ssa.Value) bool {
	related := func(x ssa.Value) bool {
		if x == v || sameValueExpr(x, v, 4) {
			return true
		}
		// v = load(FieldAddr(x, Var))
		if u, ok := v.(*ssa.UnOp); ok {
			if fa, ok := u.X.(*ssa.FieldAddr); ok && (fa.X == x || sameValueExpr(fa.X, x, 4)) {
				return true
			}
		}
		return false
	}
	for d := call.Block(); d != nil; d = d.Idom() {
		idom := d.Idom()
		if idom == nil || len(idom.Instrs) == 0 {
			continue
		}
		ifi, ok := idom.Instrs[len(idom.Instrs)-1].(*ssa.If)
		if !ok {
			continue
		}
		bo, ok := ifi.Cond.(*ssa.BinOp)
		if !ok {
			continue
		}
		k, ok := bo.Y.(*ssa.Const)
		if !ok || !k.IsNil() {
			continue
		}
		isType := false
		switch x := bo.X.(type) {
		case *ssa.Call:
			if sc := x.Call.StaticCallee(); sc != nil && sc.Name() == "Type" && len(x.Call.Args) == 1 && related(x.Call.Args[0]) {
				isType = true
			}
			if x.Call.IsInvoke() && x.Call.Method.Name() == "Type" && related(x.Call.Value) {
				isType = true
			}
		case *ssa.UnOp:
			if fa, ok := x.X.(*ssa.FieldAddr); ok {
				if _, name := fieldAddrInfo(fa); name == "T" && related(fa.X) {
					isType = true
				}
			}
		}
		if !isType {
			continue
		}
		nonNilEdge := 0
		if bo.Op == token.EQL {
			nonNilEdge = 1
		}
		if edgeDominates(idom, nonNilEdge, call.Block()) {
			return true
		}
	}
	return false
}

// ---------------------------------------------------------------------------
// R-NILRET

var ruleNilRet = &Rule{
	ID:    "R-NILRET",
	Doc:   "the result of a parser/lexer function that can return nil (the `previous error` marker) is never dereferenced — method call, field access, type assertion, or passed to a callee that dereferences it unconditionally — unless dominated by the non-nil edge of a test of that value",
	Floor: 25,
	Run:   runNilRet,
}

// nilSourceExempt: reviewed, one named function each.
var nilSourceExempt = map[string]string{
	"zeroValue": "the trailing `return nil` is unreachable: the switch covers every type that parseType can produce (num, string, bool, any, array, map), and zeroValue is only called with a non-nil result of parseType",
}

func runNilRet(c *Ctx, r *Reporter) {
	p, pkg := parserPkg(c, r)
	if pkg == nil {
		return
	}
	fns := ssaFuncsOf(p, pkg)
	// mayNil: some return of the first (only) pointer/interface result is the nil constant, or a call of a mayNil function
	mayNil := map[*ssa.Function]bool{}
	for changed := true; changed; {
		changed = false
		for _, fn := range fns {
			if mayNil[fn] || fn.Signature.Results().Len() != 1 {
				continue
			}
			switch fn.Signature.Results().At(0).Type().Underlying().(type) {
			case *types.Pointer, *types.Interface:
			default:
				continue
			}
			for _, ret := range returnsOf(fn) {
				for _, v := range resultValues(ret, 0) {
					if valueMayBeNil(v, mayNil, map[ssa.Value]bool{}) {
						mayNil[fn] = true
						changed = true
					}
				}
			}
		}
	}
	// reviewed: functions whose only nil return is unreachable
	for _, fn := range fns {
		if why := nilSourceExempt[ssaDisplayName(fn)]; why != "" && mayNil[fn] {
			delete(mayNil, fn)
			r.Exempt("pkg/parser."+ssaDisplayName(fn)+"#nil-source", p.Rel(fn.Pos()), why)
		}
	}
	// derefsParam: parameter i is dereferenced in the entry block region before any nil test of it
	derefs := map[*ssa.Function]map[int]bool{}
	for _, fn := range fns {
		for i, prm := range fn.Params {
			if unguardedDeref(prm) != nil {
				if derefs[fn] == nil {
					derefs[fn] = map[int]bool{}
				}
				derefs[fn][i] = true
			}
		}
	}
	names := []string{}
	for fn, ok := range mayNil {
		if ok {
			names = append(names, ssaDisplayName(fn))
		}
	}
	sort.Strings(names)
	r.Note("functions that can return nil: %v", names)
	for _, fn := range fns {
		n := 0
		for _, b := range fn.Blocks {
			for _, ins := range b.Instrs {
				call, ok := ins.(*ssa.Call)
				if !ok {
					continue
				}
				sc := call.Call.StaticCallee()
				if sc == nil || !mayNil[sc] {
					continue
				}
				n++
				construct := fmt.Sprintf("%s#use-of[%d]:%s", ssaQName(fn), n, sc.Name())
				bad := nilUseViolation(call, derefs, map[ssa.Value]bool{})
				if bad == nil {
					r.Ok(construct, p.Rel(instrPos(call)), "every dereference of the possibly-nil result is behind a non-nil test")
				} else {
					r.Viol(construct, p.Rel(instrPos(bad)), fmt.Sprintf("the result of %s can be nil (previous error) and is dereferenced by `%s` without a dominating non-nil test: a malformed program crashes the parser", sc.Name(), bad.String()))
				}
			}
		}
		// second source class: a field of a node built in this function into which nil (or a possibly-nil result) is
		// stored on some path (`ret.T = nil` after a failed operand): every load of that field is possibly nil
		type fieldKey struct {
			a *ssa.Alloc
			f int
		}
		nilField := map[fieldKey]string{}
		for _, b := range fn.Blocks {
			for _, ins := range b.Instrs {
				st, ok := ins.(*ssa.Store)
				if !ok {
					continue
				}
				fa, ok := st.Addr.(*ssa.FieldAddr)
				if !ok {
					continue
				}
				a, ok := fa.X.(*ssa.Alloc)
				if !ok {
					continue
				}
				switch st.Val.Type().Underlying().(type) {
				case *types.Pointer, *types.Interface:
				default:
					continue
				}
				if valueMayBeNil(st.Val, mayNil, map[ssa.Value]bool{}) {
					_, name := fieldAddrInfo(fa)
					nilField[fieldKey{a, fa.Field}] = name
				}
			}
		}
		m := 0
		for _, b := range fn.Blocks {
			for _, ins := range b.Instrs {
				ld, ok := ins.(*ssa.UnOp)
				if !ok || ld.Op != token.MUL {
					continue
				}
				fa, ok := ld.X.(*ssa.FieldAddr)
				if !ok {
					continue
				}
				a, ok := fa.X.(*ssa.Alloc)
				if !ok {
					continue
				}
				name, ok := nilField[fieldKey{a, fa.Field}]
				if !ok {
					continue
				}
				m++
				construct := fmt.Sprintf("%s#use-of-field[%d]:%s", ssaQName(fn), m, name)
				bad := nilUseViolation(ld, derefs, map[ssa.Value]bool{})
				if bad == nil {
					r.Ok(construct, p.Rel(instrPos(ld)), "every dereference of the possibly-nil field is behind a non-nil test")
				} else {
					r.Viol(construct, p.Rel(instrPos(bad)), fmt.Sprintf("the field %s of the node built here is nil on a path (previous error) and is dereferenced by `%s` without a dominating non-nil test: a malformed program crashes the parser", name, bad.String()))
				}
			}
		}
	}
}

func valueMayBeNil(v ssa.Value, mayNil map[*ssa.Function]bool, seen map[ssa.Value]bool) bool {
	if seen[v] {
		return false
	}
	seen[v] = true
	switch x := v.(type) {
	case *ssa.Const:
		return x.IsNil()
	case *ssa.Call:
		sc := x.Call.StaticCallee()
		return sc != nil && mayNil[sc]
	case *ssa.Phi:
		for _, e := range x.Edges {
			if valueMayBeNil(e, mayNil, seen) {
				return true
			}
		}
	case *ssa.ChangeInterface:
		return valueMayBeNil(x.X, mayNil, seen)
	}
	return false
}

// nilUseViolation returns an instruction that dereferences v (or a phi it flows into) unguarded.
func nilUseViolation(v ssa.Value, derefs map[*ssa.Function]map[int]bool, seen map[ssa.Value]bool) ssa.Instruction {
	if seen[v] {
		return nil
	}
	seen[v] = true
	refs := v.Referrers()
	if refs == nil {
		return nil
	}
	for _, ref := range *refs {
		var deref ssa.Instruction
		switch x := ref.(type) {
		case *ssa.Phi:
			// v enters the merge only over edges on which it was tested non-nil (`if x = parse(); x == nil { return nil }`
			// inside a branch, merged with an explicit nil of the other branch): what is merged is not this nil
			tested := true
			for i, e := range x.Edges {
				if e == v && !edgeNonNil(x.Block().Preds[i], x.Block(), v) {
					tested = false
				}
			}
			if tested {
				continue
			}
			if bad := nilUseViolation(x, derefs, seen); bad != nil {
				return bad
			}
		case *ssa.FieldAddr:
			if x.X == v {
				deref = x
			}
		case *ssa.Field:
			if x.X == v {
				deref = x
			}
		case *ssa.UnOp:
			if x.Op == token.MUL && x.X == v {
				deref = x
			}
		case *ssa.TypeAssert:
			if x.X == v && !x.CommaOk {
				// a failed non-comma-ok assertion on a nil interface panics; type switches use CommaOk
				deref = x
			}
			if x.X == v && x.CommaOk {
				// the asserted value is nil-safe to test; follow extracts? conservative: fine
			}
		case *ssa.Call:
			if x.Call.IsInvoke() && x.Call.Value == v {
				deref = x
			} else if sc := x.Call.StaticCallee(); sc != nil {
				for i, a := range x.Call.Args {
					if a == v && derefs[sc][i] {
						deref = x
					}
				}
			}
		case *ssa.MakeInterface:
			// pointer wrapped into an interface: nil pointer inside a non-nil interface; method calls on it deref
			if bad := nilUseViolation(x, derefs, seen); bad != nil {
				return bad
			}
		}
		if deref != nil && !nonNilGuarded(deref, v) {
			return deref
		}
	}
	return nil
}

// edgeNonNil: control reaches succ from pred only where v is known to be non-nil.
func edgeNonNil(pred, succ *ssa.BasicBlock, v ssa.Value) bool {
	if nonNilGuardedAt(pred, v) {
		return true
	}
	if len(pred.Instrs) == 0 || len(pred.Succs) != 2 || pred.Succs[0] == pred.Succs[1] {
		return false
	}
	ifi, ok := pred.Instrs[len(pred.Instrs)-1].(*ssa.If)
	if !ok {
		return false
	}
	bo, ok := ifi.Cond.(*ssa.BinOp)
	if !ok || (bo.Op != token.EQL && bo.Op != token.NEQ) {
		return false
	}
	k, ok := bo.Y.(*ssa.Const)
	if !ok || !k.IsNil() || !sameOrWraps(bo.X, v) {
		return false
	}
	nonNilEdge := 0
	if bo.Op == token.EQL {
		nonNilEdge = 1
	}
	return pred.Succs[nonNilEdge] == succ
}

// nonNilGuarded: use is dominated by the non-nil edge of a test of v.
func nonNilGuarded(use ssa.Instruction, v ssa.Value) bool {
	return nonNilGuardedAt(use.Block(), v)
}

func nonNilGuardedAt(at *ssa.BasicBlock, v ssa.Value) bool {
	for d := at; d != nil; d = d.Idom() {
		idom := d.Idom()
		if idom == nil || len(idom.Instrs) == 0 {
			continue
		}
		ifi, ok := idom.Instrs[len(idom.Instrs)-1].(*ssa.If)
		if !ok {
			continue
		}
		bo, ok := ifi.Cond.(*ssa.BinOp)
		if !ok || (bo.Op != token.EQL && bo.Op != token.NEQ) {
			continue
		}
		k, ok := bo.Y.(*ssa.Const)
		if !ok || !k.IsNil() || !(sameOrWraps(bo.X, v) || sameFieldLoad(bo.X, v)) {
			continue
		}
		nonNilEdge := 0
		if bo.Op == token.EQL {
			nonNilEdge = 1
		}
		if edgeDominates(idom, nonNilEdge, at) {
			return true
		}
	}
	return false
}

// guardedPhiValue: v is a phi of nil and exactly one other value, and `use` lies on the non-nil edge of a test of v:
// on every path to use, v is that other value and control came through the predecessor block that contributed it.
func guardedPhiValue(v ssa.Value, use ssa.Instruction) (ssa.Value, *ssa.BasicBlock) {
	phi, ok := v.(*ssa.Phi)
	if !ok || !nonNilGuarded(use, v) {
		return nil, nil
	}
	var val ssa.Value
	var via *ssa.BasicBlock
	for i, e := range phi.Edges {
		if k, ok := e.(*ssa.Const); ok && k.IsNil() {
			continue
		}
		if val != nil {
			return nil, nil
		}
		val, via = e, phi.Block().Preds[i]
	}
	return val, via
}

// sameFieldLoad: two loads of the same field of the same local object.
func sameFieldLoad(x, v ssa.Value) bool {
	ux, ok1 := x.(*ssa.UnOp)
	uv, ok2 := v.(*ssa.UnOp)
	if !ok1 || !ok2 || ux.Op != token.MUL || uv.Op != token.MUL {
		return false
	}
	fx, ok1 := ux.X.(*ssa.FieldAddr)
	fv, ok2 := uv.X.(*ssa.FieldAddr)
	return ok1 && ok2 && fx.Field == fv.Field && fx.X == fv.X
}

func sameOrWraps(x, v ssa.Value) bool {
	if x == v {
		return true
	}
	if mi, ok := v.(*ssa.MakeInterface); ok && mi.X == x {
		return true
	}
	if mi, ok := x.(*ssa.MakeInterface); ok && mi.X == v {
		return true
	}
	return false
}

// unguardedDeref returns a dereference of parameter prm that is not behind a non-nil test, or nil.
func unguardedDeref(prm *ssa.Parameter) ssa.Instruction {
	switch prm.Type().Underlying().(type) {
	case *types.Pointer, *types.Interface:
	default:
		return nil
	}
	refs := prm.Referrers()
	if refs == nil {
		return nil
	}
	for _, ref := range *refs {
		var deref ssa.Instruction
		switch x := ref.(type) {
		case *ssa.FieldAddr:
			if x.X == ssa.Value(prm) {
				deref = x
			}
		case *ssa.Call:
			if x.Call.IsInvoke() && x.Call.Value == ssa.Value(prm) {
				deref = x
			}
		case *ssa.UnOp:
			if x.Op == token.MUL && x.X == ssa.Value(prm) {
				deref = x
			}
		}
		if deref != nil && !nonNilGuarded(deref, prm) {
			return deref
		}
	}
	return nil
}

// ---------------------------------------------------------------------------
// R-LAYOUTKEY: nodes that are keys of the formatter's layout table

var ruleLayoutKey = &Rule{
	ID:    "R-LAYOUTKEY",
	Doc:   "every array/map literal node the parser allocates is registered in the formatter's multiline layout table (recordMultiline) on every path that returns it, directly or through a callee that registers its parameter: a literal node without layout entry is printed without its elements' line breaks and comments",
	Floor: 2,
	Run:   runLayoutKey,
}

// layoutKeyExempt: reviewed, one named function each.
var layoutKeyExempt = map[string]string{
	"zeroValue": "builds the implicit zero value of a typed declaration (`x:[]num`): an empty synthetic literal that has no source text and is never printed (the formatter prints the declaration's name and type)",
}

func runLayoutKey(c *Ctx, r *Reporter) {
	p, pkg := parserPkg(c, r)
	if pkg == nil {
		return
	}
	rec := FindFunc(pkg, "(*formatting).recordMultiline")
	if rec == nil {
		r.Undecided("(*formatting).recordMultiline not found")
		return
	}
	recSSA := p.SSAFunc(rec.Obj)
	fns := ssaFuncsOf(p, pkg)
	// key types: static types passed as the node argument
	keyTypes := map[*types.TypeName]bool{}
	for _, fn := range fns {
		for _, ci := range callsTo(fn, recSSA) {
			if mi, ok := ci.Common().Args[1].(*ssa.MakeInterface); ok {
				if n := namedOf(mi.X.Type()); n != nil {
					keyTypes[n.Obj()] = true
				}
			}
		}
	}
	if len(keyTypes) == 0 {
		r.Undecided("no recordMultiline call sites found")
		return
	}
	// recordsParam[fn][i]: fn registers its i-th parameter on every path to a return that is not false/nil
	recordsParam := map[*ssa.Function]map[int]bool{}
	registers := func(fn *ssa.Function, v ssa.Value) []*ssa.BasicBlock {
		var blocks []*ssa.BasicBlock
		for _, b := range fn.Blocks {
			for _, ins := range b.Instrs {
				call, ok := ins.(*ssa.Call)
				if !ok {
					continue
				}
				sc := call.Call.StaticCallee()
				if sc == recSSA {
					if mi, ok := call.Call.Args[1].(*ssa.MakeInterface); ok && mi.X == v {
						blocks = append(blocks, b)
					}
				} else if sc != nil {
					for i, a := range call.Call.Args {
						if a == v && recordsParam[sc][i] {
							blocks = append(blocks, b)
						}
					}
				}
			}
		}
		return blocks
	}
	isFailReturn := func(ret *ssa.Return) bool {
		for _, v := range resultValues(ret, 0) {
			k, ok := v.(*ssa.Const)
			if !ok {
				return false
			}
			if !(k.IsNil() || (k.Value != nil && k.Value.ExactString() == "false")) {
				return false
			}
		}
		return len(ret.Results) > 0
	}
	pathAvoiding := func(from *ssa.BasicBlock, avoid []*ssa.BasicBlock) bool {
		av := map[*ssa.BasicBlock]bool{}
		for _, b := range avoid {
			av[b] = true
		}
		if av[from] {
			return false
		}
		seen := map[*ssa.BasicBlock]bool{}
		stack := []*ssa.BasicBlock{from}
		for len(stack) > 0 {
			cur := stack[len(stack)-1]
			stack = stack[:len(stack)-1]
			if seen[cur] || av[cur] {
				continue
			}
			seen[cur] = true
			if len(cur.Instrs) > 0 {
				if ret, ok := cur.Instrs[len(cur.Instrs)-1].(*ssa.Return); ok && !isFailReturn(ret) {
					return true
				}
			}
			stack = append(stack, cur.Succs...)
		}
		return false
	}
	for changed := true; changed; {
		changed = false
		for _, fn := range fns {
			for i, prm := range fn.Params {
				if recordsParam[fn][i] || len(fn.Blocks) == 0 {
					continue
				}
				if n := namedOf(prm.Type()); n == nil || !keyTypes[n.Obj()] {
					continue
				}
				blocks := registers(fn, prm)
				if len(blocks) > 0 && !pathAvoiding(fn.Blocks[0], blocks) {
					if recordsParam[fn] == nil {
						recordsParam[fn] = map[int]bool{}
					}
					recordsParam[fn][i] = true
					changed = true
				}
			}
		}
	}
	for _, fn := range fns {
		n := 0
		for _, b := range fn.Blocks {
			for _, ins := range b.Instrs {
				a, ok := ins.(*ssa.Alloc)
				if !ok {
					continue
				}
				named := allocElemNamed(a)
				if named == nil || !keyTypes[named.Obj()] {
					continue
				}
				n++
				construct := fmt.Sprintf("%s#new-%s[%d]", ssaQName(fn), named.Obj().Name(), n)
				blocks := registers(fn, a)
				if why := layoutKeyExempt[ssaDisplayName(fn)]; why != "" {
					r.Exempt(construct, p.Rel(instrPos(a)), why)
					continue
				}
				if len(blocks) == 0 {
					r.Viol(construct, p.Rel(instrPos(a)), "a "+named.Obj().Name()+" node is created here but never registered with recordMultiline: the formatter has no layout for it (elements, line breaks and comments inside it are lost)")
					continue
				}
				r.Check(!pathAvoiding(a.Block(), blocks), construct, p.Rel(instrPos(a)), "registered with recordMultiline on every path that returns it",
					"a path returns this "+named.Obj().Name()+" node without registering it with recordMultiline: comments and line breaks inside the literal are dropped by the formatter")
			}
		}
	}
}

// wrapAnyLooksThroughGroups: a parenthesised literal converts like the literal. wrapAny gives up with an internal
// error panic only after it has found that the value is not a GroupExpression (whose inner expression it converts
// instead): every panic in wrapAny is dominated by the failed edge of an assertion of the value to *GroupExpression.
func wrapAnyLooksThroughGroups(p *Program, pkg *packages.Package, r *Reporter) {
	fd := FindFunc(pkg, "wrapAny")
	if fd == nil {
		r.Undecided("wrapAny not found")
		return
	}
	sf := p.SSAFunc(fd.Obj)
	type edge struct {
		b   *ssa.BasicBlock
		idx int
	}
	var notGroup []edge
	for _, b := range sf.Blocks {
		if len(b.Instrs) == 0 {
			continue
		}
		ifi, ok := b.Instrs[len(b.Instrs)-1].(*ssa.If)
		if !ok {
			continue
		}
		ex, ok := ifi.Cond.(*ssa.Extract)
		if !ok || ex.Index != 1 {
			continue
		}
		ta, ok := ex.Tuple.(*ssa.TypeAssert)
		if !ok || !ta.CommaOk || len(sf.Params) == 0 || ta.X != ssa.Value(sf.Params[0]) {
			continue
		}
		if pt, ok := ta.AssertedType.(*types.Pointer); ok {
			if n := namedOf(pt.Elem()); n != nil && n.Obj().Name() == "GroupExpression" {
				notGroup = append(notGroup, edge{b, 1})
			}
		}
	}
	n := 0
	for _, b := range sf.Blocks {
		for _, ins := range b.Instrs {
			pn, ok := ins.(*ssa.Panic)
			if !ok {
				continue
			}
			n++
			good := false
			for _, e := range notGroup {
				if edgeDominates(e.b, e.idx, b) {
					good = true
				}
			}
			r.Check(good, fmt.Sprintf("pkg/parser.wrapAny#gives-up-only-for-non-groups[%d]", n), p.Rel(instrPos(pn)), "the internal error is reached only for a value that is not a parenthesised expression",
				"wrapAny can reach this internal-error panic for a GroupExpression: a parenthesised literal that has to be converted (`x:[]any` `x = ([1 2])`, `[[1 \"a\"] ([3 4])]`) crashes the parser instead of being converted like the literal")
		}
	}
	if n == 0 {
		r.Note("wrapAny has no panic")
	}
}
