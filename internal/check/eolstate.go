package check

import (
	"fmt"
	"go/token"
	"go/types"
	"os"
	"sort"
	"strings"

	"golang.org/x/tools/go/packages"
	"golang.org/x/tools/go/ssa"
)

// R-EOLSTATE: tokens are skipped to the end of the line only when the parser
// is at the end of the line (and the end-of-line comment has been recorded),
// or after an error has been recorded.

// state bitset: one bit per (position, comment) combination.
type eolSet uint8

const (
	stU0  eolSet = 1 << iota // unknown position, no comment captured
	stU1                     // unknown position, comment captured (cannot normally arise: consumption clears the flag)
	stL0                     // at end of line (or error recorded by assertEOL), comment not captured
	stL1                     // at end of line, comment captured
	stE                      // an error has been recorded on this path (sticky)
	stAll = stU0 | stU1 | stL0 | stL1 | stE
)

func (s eolSet) String() string {
	var parts []string
	if s&stU0 != 0 {
		parts = append(parts, "not-at-EOL")
	}
	if s&stU1 != 0 {
		parts = append(parts, "not-at-EOL(comment kept)")
	}
	if s&stL0 != 0 {
		parts = append(parts, "at-EOL(comment not kept)")
	}
	if s&stL1 != 0 {
		parts = append(parts, "at-EOL(comment kept)")
	}
	if s&stE != 0 {
		parts = append(parts, "error-recorded")
	}
	return strings.Join(parts, "|")
}

func mapStates(s eolSet, f func(eolSet) eolSet) eolSet {
	var out eolSet
	for _, bit := range []eolSet{stU0, stU1, stL0, stL1, stE} {
		if s&bit != 0 {
			out |= f(bit)
		}
	}
	return out
}

func toEOL(s eolSet) eolSet {
	return mapStates(s, func(b eolSet) eolSet {
		switch b {
		case stU0:
			return stL0
		case stU1:
			return stL1
		}
		return b
	})
}

func keepComment(s eolSet) eolSet {
	return mapStates(s, func(b eolSet) eolSet {
		switch b {
		case stU0:
			return stU1
		case stL0:
			return stL1
		}
		return b
	})
}

func toErr(s eolSet) eolSet {
	if s == 0 {
		return 0
	}
	return stE
}

type eolAnalysis struct {
	p        *Program
	pkg      *packages.Package
	fns      []*ssa.Function
	byName   map[string]*ssa.Function
	consumes map[*ssa.Function]bool // may advance the token position
	exit     map[*ssa.Function]eolSet
	falseErr map[*ssa.Function]bool
	nilErr   map[*ssa.Function]bool
	nilParam map[*ssa.Function]int  // nilErr modulo this parameter: the result may also be nil when that argument is nil (-1: none)
	typeNil  map[*ssa.Function]bool // result's T field is nil only after an error (parseTypedDecl)
	// per function results of the last run
	before   map[ssa.Instruction]eolSet
	endOf    map[*ssa.BasicBlock]eolSet
	curParam int
}

func (a *eolAnalysis) fn(name string) *ssa.Function { return a.byName[name] }

func newEOLAnalysis(c *Ctx, r *Reporter) *eolAnalysis {
	if v, ok := c.cache["eol"]; ok {
		return v.(*eolAnalysis)
	}
	p, err := c.Default()
	if err != nil {
		r.Undecided("%v", err)
		return nil
	}
	pkg := p.Pkg("pkg/parser")
	if pkg == nil {
		r.Undecided("pkg/parser not loaded")
		return nil
	}
	a := &eolAnalysis{p: p, pkg: pkg, byName: map[string]*ssa.Function{}, consumes: map[*ssa.Function]bool{}, exit: map[*ssa.Function]eolSet{},
		falseErr: map[*ssa.Function]bool{}, nilErr: map[*ssa.Function]bool{}, nilParam: map[*ssa.Function]int{}, typeNil: map[*ssa.Function]bool{}}
	for _, fd := range Funcs(pkg) {
		sf := p.SSAFunc(fd.Obj)
		if sf == nil {
			continue
		}
		a.byName[fd.Name()] = sf
		a.fns = append(a.fns, sf)
	}
	for _, need := range []string{"(*parser).advancePastNL", "(*parser).assertEOL", "(*parser).isAtEOL", "(*parser).appendErrorForToken", "(*parser).appendError", "(*parser).advanceWSS", "(*parser).advanceTo", "(*parser).recordComment", "(*parser).curComment", "(*parser).recordCommentString"} {
		if a.byName[need] == nil {
			r.Undecided("anchor %s not found in pkg/parser", need)
			return nil
		}
	}
	// consumes: reaches advanceWSS/advanceTo through static calls
	a.consumes[a.fn("(*parser).advanceWSS")] = true
	a.consumes[a.fn("(*parser).advanceTo")] = true
	for changed := true; changed; {
		changed = false
		for _, fn := range a.fns {
			if a.consumes[fn] {
				continue
			}
			for _, b := range fn.Blocks {
				for _, ins := range b.Instrs {
					if ci, ok := ins.(ssa.CallInstruction); ok {
						if sc := ci.Common().StaticCallee(); sc != nil && a.consumes[sc] {
							a.consumes[fn] = true
							changed = true
						}
					}
				}
			}
		}
	}
	// candidate contracts (optimistic), exit summaries (pessimistic)
	for _, fn := range a.fns {
		a.exit[fn] = stAll
		res := fn.Signature.Results()
		if res.Len() >= 1 {
			if b, ok := res.At(0).Type().Underlying().(*types.Basic); ok && b.Kind() == types.Bool && res.Len() == 1 {
				a.falseErr[fn] = true
			}
			switch res.At(0).Type().Underlying().(type) {
			case *types.Pointer, *types.Interface:
				if res.Len() == 1 {
					a.nilErr[fn] = true
				}
			}
		}
	}
	a.typeNil[a.fn("(*parser).parseTypedDecl")] = a.fn("(*parser).parseTypedDecl") != nil
	// fixpoint: (1) exit summaries to their greatest fixpoint under the current contract assumptions,
	// (2) verify the contracts; when one is dropped, restart (1) from the pessimistic summaries.
	for outer := 0; outer < 40; outer++ {
		for _, fn := range a.fns {
			a.exit[fn] = stAll
		}
		for iter := 0; iter < 40; iter++ {
			changed := false
			for _, fn := range a.fns {
				if len(fn.Blocks) == 0 {
					continue
				}
				a.run(fn)
				var ex eolSet
				for _, ret := range returnsOf(fn) {
					ex |= a.before[ret]
				}
				if ex == 0 {
					ex = stE // no normal return
				}
				if ex != a.exit[fn] {
					a.exit[fn] = ex
					changed = true
				}
			}
			if !changed {
				break
			}
		}
		dropped := false
		for _, fn := range a.fns {
			if len(fn.Blocks) == 0 {
				continue
			}
			a.run(fn)
			if a.falseErr[fn] && !a.checkFalseErr(fn) {
				a.falseErr[fn] = false
				dropped = true
			}
			if a.nilErr[fn] && !a.checkNilErr(fn) {
				a.nilErr[fn] = false
				dropped = true
			}
			if a.typeNil[fn] && !a.checkTypeNil(fn) {
				a.typeNil[fn] = false
				dropped = true
			}
		}
		if !dropped {
			break
		}
	}
	if os.Getenv("EVYCHECK_DEBUG_EOL") != "" {
		for _, fn := range a.fns {
			res := fn.Signature.Results()
			if res.Len() == 1 {
				fmt.Fprintf(os.Stderr, "EOL %-45s consumes=%v nilErr=%v(param %d) falseErr=%v exit=%s\n", ssaDisplayName(fn), a.consumes[fn], a.nilErr[fn], a.nilParam[fn], a.falseErr[fn], a.exit[fn])
			}
		}
	}
	c.cache["eol"] = a
	return a
}

// run computes the state before every instruction of fn (entry: unknown position).
func (a *eolAnalysis) run(fn *ssa.Function) {
	a.before = map[ssa.Instruction]eolSet{}
	a.endOf = map[*ssa.BasicBlock]eolSet{}
	in := map[*ssa.BasicBlock]eolSet{}
	// edgeOut[b][i] = state flowing along the i-th successor edge
	edgeOut := map[*ssa.BasicBlock][]eolSet{}
	in[fn.Blocks[0]] = stU0
	work := []*ssa.BasicBlock{fn.Blocks[0]}
	inWork := map[*ssa.BasicBlock]bool{fn.Blocks[0]: true}
	for len(work) > 0 {
		b := work[0]
		work = work[1:]
		inWork[b] = false
		s := in[b]
		for _, ins := range b.Instrs {
			a.before[ins] = s
			s = a.transfer(ins, s)
		}
		a.endOf[b] = s
		outs := make([]eolSet, len(b.Succs))
		for i := range outs {
			outs[i] = s
		}
		if len(b.Instrs) > 0 {
			if ifi, ok := b.Instrs[len(b.Instrs)-1].(*ssa.If); ok && len(b.Succs) == 2 {
				outs[0], outs[1] = a.refine(ifi.Cond, s, 0)
			}
		}
		edgeOut[b] = outs
		for i, succ := range b.Succs {
			ns := in[succ] | outs[i]
			if ns != in[succ] {
				in[succ] = ns
				if !inWork[succ] {
					work = append(work, succ)
					inWork[succ] = true
				}
			}
		}
	}
}

func (a *eolAnalysis) transfer(ins ssa.Instruction, s eolSet) eolSet {
	ci, ok := ins.(ssa.CallInstruction)
	if !ok {
		return s
	}
	if _, isDefer := ins.(*ssa.Defer); isDefer {
		return s
	}
	sc := ci.Common().StaticCallee()
	if sc == nil {
		return s
	}
	switch sc {
	case a.fn("(*parser).assertEOL"):
		return toEOL(s)
	case a.fn("(*parser).appendError"), a.fn("(*parser).appendErrorForToken"):
		return toErr(s)
	case a.fn("(*parser).recordComment"), a.fn("(*parser).curComment"), a.fn("(*parser).recordCommentString"):
		return keepComment(s)
	case a.fn("(*parser).advancePastNL"):
		return mapStates(s, func(b eolSet) eolSet {
			if b == stE {
				return stE
			}
			return stU0
		})
	}
	if a.consumes[sc] {
		ex := a.exit[sc]
		return mapStates(s, func(b eolSet) eolSet {
			if b == stE {
				return stE
			}
			return ex
		})
	}
	if ex, ok := a.exit[sc]; ok && ex == stE {
		return toErr(s) // a helper that records an error on every path (e.g. unexpectedLeftTokenError)
	}
	return s
}

// refine returns the states on the true and false edges of a condition.
func (a *eolAnalysis) refine(cond ssa.Value, s eolSet, depth int) (eolSet, eolSet) {
	if depth > 3 {
		return s, s
	}
	switch x := cond.(type) {
	case *ssa.UnOp:
		if x.Op == token.NOT {
			t, f := a.refine(x.X, s, depth+1)
			return f, t
		}
	case *ssa.Call:
		sc := x.Call.StaticCallee()
		if sc == a.fn("(*parser).isAtEOL") {
			return toEOL(s), s
		}
		if sc != nil && a.falseErr[sc] {
			return s, toErr(s)
		}
	case *ssa.BinOp:
		if x.Op != token.EQL && x.Op != token.NEQ {
			return s, s
		}
		k, isNil := x.Y.(*ssa.Const)
		if !isNil || !k.IsNil() {
			return s, s
		}
		if a.nilImpliesErr(x.X, map[ssa.Value]bool{}) {
			if x.Op == token.EQL {
				return toErr(s), s
			}
			return s, toErr(s)
		}
	}
	return s, s
}

// nilImpliesErr: if v is nil then an error has been recorded on this path.
func (a *eolAnalysis) nilImpliesErr(v ssa.Value, seen map[ssa.Value]bool) bool {
	if seen[v] {
		return true
	}
	seen[v] = true
	switch x := v.(type) {
	case *ssa.Call:
		sc := x.Call.StaticCallee()
		if sc != nil && a.nilErr[sc] {
			if pi, ok := a.nilParam[sc]; ok && pi >= 0 {
				return pi < len(x.Call.Args) && a.nilImpliesErr(x.Call.Args[pi], seen)
			}
			return true
		}
		// X.Type() where X comes from a typeNil function
		if sc != nil && sc.Name() == "Type" && len(x.Call.Args) == 1 {
			if c2, ok := x.Call.Args[0].(*ssa.Call); ok {
				if s2 := c2.Call.StaticCallee(); s2 != nil && a.typeNil[s2] {
					return true
				}
			}
		}
		return false
	case *ssa.MakeInterface, *ssa.Alloc:
		return true // never nil
	case *ssa.Phi:
		for _, e := range x.Edges {
			if !a.nilImpliesErr(e, seen) {
				return false
			}
		}
		return true
	case *ssa.TypeAssert:
		return a.nilImpliesErr(x.X, seen)
	case *ssa.ChangeInterface:
		return a.nilImpliesErr(x.X, seen)
	case *ssa.Const:
		return false
	case *ssa.UnOp:
		// load of a field of a node allocated in this function (ret.Value = parse…(); if ret.Value == nil)
		if fa, ok := x.X.(*ssa.FieldAddr); ok {
			if al, ok := fa.X.(*ssa.Alloc); ok {
				n := 0
				for _, ref := range *al.Referrers() {
					fa2, ok := ref.(*ssa.FieldAddr)
					if !ok || fa2.Field != fa.Field {
						continue
					}
					for _, r2 := range *fa2.Referrers() {
						if st, ok := r2.(*ssa.Store); ok && st.Addr == ssa.Value(fa2) {
							n++
							if !a.nilImpliesErr(st.Val, seen) {
								return false
							}
						}
					}
				}
				return n > 0
			}
		}
	}
	return false
}

// checkFalseErr: every `false` that fn can return is returned with an error recorded.
func (a *eolAnalysis) checkFalseErr(fn *ssa.Function) bool {
	for _, ret := range returnsOf(fn) {
		if a.before[ret] == 0 {
			continue
		}
		for _, v := range resultValues(ret, 0) {
			if !a.boolFalseImpliesErr(v, a.before[ret], ret.Block(), map[ssa.Value]bool{}) {
				return false
			}
		}
	}
	return true
}

func (a *eolAnalysis) boolFalseImpliesErr(v ssa.Value, st eolSet, blk *ssa.BasicBlock, seen map[ssa.Value]bool) bool {
	if seen[v] {
		return true
	}
	seen[v] = true
	switch x := v.(type) {
	case *ssa.Const:
		if x.Value != nil && x.Value.ExactString() == "true" {
			return true
		}
		return st != 0 && st&^stE == 0
	case *ssa.Call:
		sc := x.Call.StaticCallee()
		return sc != nil && a.falseErr[sc]
	case *ssa.Phi:
		for i, e := range x.Edges {
			pred := x.Block().Preds[i]
			if !a.boolFalseImpliesErr(e, a.endOf[pred], pred, seen) {
				return false
			}
		}
		return true
	}
	return false
}

// nilRetExempt: reviewed exemption for the nil⇒error contract, one named function each.
var nilRetExempt = map[string]string{
	"(*parser).parseLiteral": "the trailing `return nil` is unreachable: parseExpr calls parseLiteral only for the token types its switch handles",
}

// checkNilErr: every nil that fn can return is returned with an error recorded.
func (a *eolAnalysis) checkNilErr(fn *ssa.Function) bool {
	exemptLeft := 0
	if nilRetExempt[ssaDisplayName(fn)] != "" {
		exemptLeft = 1
	}
	rets := returnsOf(fn)
	a.curParam = -1
	defer func() { a.nilParam[fn] = a.curParam }()
	for i := len(rets) - 1; i >= 0; i-- {
		ret := rets[i]
		if a.before[ret] == 0 {
			continue // unreachable (e.g. the recover block of a function with defers)
		}
		for _, v := range resultValues(ret, 0) {
			if !a.nilRetOK(v, a.before[ret], map[ssa.Value]bool{}) {
				if k, ok := v.(*ssa.Const); ok && k.IsNil() && exemptLeft > 0 {
					exemptLeft--
					continue
				}
				if os.Getenv("EVYCHECK_DEBUG_EOL") != "" {
					fmt.Fprintf(os.Stderr, "EOLDROP nilErr %s: return at %s value %s (%T) state %s\n", ssaDisplayName(fn), a.p.Rel(instrPos(ret)), v, v, a.before[ret])
				}
				return false
			}
		}
	}
	return true
}

func (a *eolAnalysis) nilRetOK(v ssa.Value, st eolSet, seen map[ssa.Value]bool) bool {
	if seen[v] {
		return true
	}
	seen[v] = true
	switch x := v.(type) {
	case *ssa.Const:
		if x.IsNil() {
			return st != 0 && st&^stE == 0
		}
		return true
	case *ssa.MakeInterface, *ssa.Alloc:
		return true
	case *ssa.Parameter:
		// the function hands its argument through: nil only if the argument is nil
		for i, prm := range x.Parent().Params {
			if prm == x {
				if a.curParam == -1 || a.curParam == i {
					a.curParam = i
					return true
				}
			}
		}
		return false
	case *ssa.Call:
		sc := x.Call.StaticCallee()
		if sc == nil || !a.nilErr[sc] {
			return false
		}
		if pi, ok := a.nilParam[sc]; ok && pi >= 0 {
			return pi < len(x.Call.Args) && a.nilRetOK(x.Call.Args[pi], st, seen)
		}
		return true
	case *ssa.Phi:
		for i, e := range x.Edges {
			pred := x.Block().Preds[i]
			if !a.nilRetOK(e, a.endOf[pred], seen) {
				return false
			}
		}
		return true
	case *ssa.TypeAssert:
		return a.nilRetOK(x.X, st, seen)
	case *ssa.ChangeInterface:
		return a.nilRetOK(x.X, st, seen)
	case *ssa.UnOp:
		// load of a variable: all stores
		if al, ok := x.X.(*ssa.Alloc); ok {
			for _, ref := range *al.Referrers() {
				if stI, ok := ref.(*ssa.Store); ok && stI.Addr == ssa.Value(al) {
					if !a.nilRetOK(stI.Val, a.before[stI], seen) {
						return false
					}
				}
			}
			return true
		}
	}
	return false
}

// checkTypeNil: every return of fn either has an error recorded or is dominated by a store to a field named T.
func (a *eolAnalysis) checkTypeNil(fn *ssa.Function) bool {
	var stores []*ssa.Store
	for _, b := range fn.Blocks {
		for _, ins := range b.Instrs {
			if st, ok := ins.(*ssa.Store); ok {
				if fa, ok := st.Addr.(*ssa.FieldAddr); ok {
					if _, name := fieldAddrInfo(fa); name == "T" {
						if k, isConst := st.Val.(*ssa.Const); !isConst || !k.IsNil() {
							stores = append(stores, st)
						}
					}
				}
			}
		}
	}
	for _, ret := range returnsOf(fn) {
		st := a.before[ret]
		if st != 0 && st&^stE == 0 {
			continue
		}
		dom := false
		for _, s := range stores {
			if instrDominates(s, ret) {
				dom = true
			}
		}
		if !dom {
			return false
		}
	}
	return len(stores) > 0
}

// eolExempt: reviewed exemptions, one named construct each.
var eolExempt = map[string]string{
	"pkg/parser.(*parser).parseFunc#skip[1]": "skips the signature line, which the pre-pass parseFuncSignatures has already parsed, EOL-asserted and whose comment it recorded (parseFuncDefSignature is checked by this rule)",
}

var ruleEOLState = &Rule{
	ID:    "R-EOLSTATE",
	Doc:   "path-sensitive typestate over the SSA CFG of every parser function: advancePastNL (which discards every token up to the newline) is reached only after assertEOL / an isAtEOL edge with the end-of-line comment recorded, or after an error was recorded; callee contracts (nil⇒error, false⇒error, exit states) are verified by the same analysis to a fixpoint",
	Floor: 15,
	Run:   runEOLState,
}

func runEOLState(c *Ctx, r *Reporter) {
	a := newEOLAnalysis(c, r)
	if a == nil {
		return
	}
	p := a.p
	skip := a.fn("(*parser).advancePastNL")
	names := make([]string, 0, len(a.byName))
	for n := range a.byName {
		names = append(names, n)
	}
	sort.Strings(names)
	for _, name := range names {
		fn := a.byName[name]
		if fn == skip || len(fn.Blocks) == 0 {
			continue
		}
		a.run(fn)
		n := 0
		check := func(ins ssa.Instruction, st eolSet, what string) {
			n++
			construct := fmt.Sprintf("%s#skip[%d]", ssaQName(fn), n)
			pos := p.Rel(instrPos(ins))
			bad := st &^ (stE | stL1)
			switch {
			case st == 0:
				r.Ok(construct, pos, "unreachable")
			case bad == 0:
				r.Ok(construct, pos, what+" only at end of line with the comment recorded, or after an error")
			case eolExempt[construct] != "":
				r.Exempt(construct, pos, eolExempt[construct]+" [state: "+st.String()+"]")
			case bad&(stU0|stU1) != 0:
				r.Viol(construct, pos, what+" is reachable in state "+bad.String()+": tokens up to the end of the line are discarded although no end-of-line assertion and no error precede it on some path — stray text is accepted and silently dropped")
			default:
				r.Viol(construct, pos, what+" is reachable at end of line without the end-of-line comment having been recorded: the comment is lost when the program is formatted")
			}
		}
		hasDefer := false
		for _, b := range fn.Blocks {
			for _, ins := range b.Instrs {
				switch x := ins.(type) {
				case *ssa.Call:
					if x.Call.StaticCallee() == skip {
						check(x, a.before[x], "advancePastNL")
					}
				case *ssa.Defer:
					if x.Call.StaticCallee() == skip {
						hasDefer = true
					}
				}
			}
		}
		if hasDefer {
			for _, b := range fn.Blocks {
				for _, ins := range b.Instrs {
					if rd, ok := ins.(*ssa.RunDefers); ok {
						check(rd, a.before[rd], "deferred advancePastNL at return")
					}
				}
			}
		}
	}
	// every captured comment string is recorded later
	cur, recStr := a.fn("(*parser).curComment"), a.fn("(*parser).recordCommentString")
	for _, name := range names {
		fn := a.byName[name]
		k := 0
		for _, b := range fn.Blocks {
			for _, ins := range b.Instrs {
				call, ok := ins.(*ssa.Call)
				if !ok || call.Call.StaticCallee() != cur {
					continue
				}
				k++
				used := false
				if refs := call.Referrers(); refs != nil {
					for _, ref := range *refs {
						if c2, ok := ref.(*ssa.Call); ok && c2.Call.StaticCallee() == recStr {
							used = true
						}
					}
				}
				r.Check(used, fmt.Sprintf("%s#curComment[%d]", ssaQName(fn), k), p.Rel(instrPos(call)), "the captured comment is recorded with recordCommentString", "the comment captured with curComment() is never passed to recordCommentString: it is lost when the program is formatted")
			}
		}
	}
	// contracts, for the evidence
	var ne, fe []string
	for fn, ok := range a.nilErr {
		if ok && a.consumes[fn] {
			ne = append(ne, ssaDisplayName(fn))
		}
	}
	for fn, ok := range a.falseErr {
		if ok {
			fe = append(fe, ssaDisplayName(fn))
		}
	}
	sort.Strings(ne)
	sort.Strings(fe)
	r.Note("verified contracts nil⇒error: %v; false⇒error: %v", ne, fe)
}
