package check

import (
	"encoding/json"
	"fmt"
	"go/token"
	"os"
	"path/filepath"
	"sort"
	"strings"
	"time"
)

// Verdict of one obligation.
type Verdict string

// Verdicts.
const (
	OK        Verdict = "ok"
	Violation Verdict = "violation"
	Exempt    Verdict = "exempt"
)

// Obligation is one rule instance: a loop, a call site, a switch, a path.
type Obligation struct {
	Rule      string  `json:"rule"`
	Construct string  `json:"construct"` // stable key: function + kind + ordinal, never a line number
	Pos       string  `json:"pos"`       // file:line (diagnostic only)
	Verdict   Verdict `json:"verdict"`
	Why       string  `json:"why,omitempty"`
}

// Rule is one reusable analysis.
type Rule struct {
	ID    string
	Doc   string
	Floor int // minimum number of instances; fewer = undecided
	Run   func(c *Ctx, r *Reporter)
}

// Reporter collects the obligations of one rule run.
type Reporter struct {
	rule *Rule
	ctx  *Ctx
	obs  []Obligation
	// Undecided reasons (anchor not resolved etc.)
	undecided []string
	notes     []string
}

// Add records an obligation.
func (r *Reporter) Add(construct string, pos string, v Verdict, why string) {
	r.obs = append(r.obs, Obligation{Rule: r.rule.ID, Construct: construct, Pos: pos, Verdict: v, Why: why})
}

// Ok records a discharged obligation.
func (r *Reporter) Ok(construct, pos, why string) { r.Add(construct, pos, OK, why) }

// Viol records a violated obligation.
func (r *Reporter) Viol(construct, pos, why string) { r.Add(construct, pos, Violation, why) }

// Exempt records an obligation exempted by review, with the reason.
func (r *Reporter) Exempt(construct, pos, why string) { r.Add(construct, pos, Exempt, why) }

// Check records ok when cond holds, a violation otherwise.
func (r *Reporter) Check(cond bool, construct, pos, okWhy, violWhy string) {
	if cond {
		r.Ok(construct, pos, okWhy)
	} else {
		r.Viol(construct, pos, violWhy)
	}
}

// Undecided marks the rule as unable to decide (anchor missing, unexpected shape).
func (r *Reporter) Undecided(format string, args ...any) {
	r.undecided = append(r.undecided, r.rule.ID+": "+fmt.Sprintf(format, args...))
}

// Note attaches free text to the evidence.
func (r *Reporter) Note(format string, args ...any) {
	r.notes = append(r.notes, r.rule.ID+": "+fmt.Sprintf(format, args...))
}

// Ctx is the state of one evycheck run.
type Ctx struct {
	Repo     string
	VerifDir string
	Tier     string
	progs    map[string]*Program
	loadErr  map[string]error
	cache    map[string]any
}

// NewCtx creates a context for repo.
func NewCtx(repo, verifDir, tier string) *Ctx {
	if verifDir != "" {
		AnchorFile = filepath.Join(verifDir, "anchors.json")
	}
	return &Ctx{Repo: repo, VerifDir: verifDir, Tier: tier, progs: map[string]*Program{}, loadErr: map[string]error{}, cache: map[string]any{}}
}

// Default returns the default configuration (no tags; root packages with SSA).
func (c *Ctx) Default() (*Program, error) {
	return c.prog("default", func() (*Program, error) {
		return Load("default", c.Repo, "", []string{"./pkg/...", "."}, true, false)
	})
}

// Tinygo returns pkg/wasm under the tinygo tag (no SSA: bodies of JS imports missing).
func (c *Ctx) Tinygo() (*Program, error) {
	return c.prog("tinygo", func() (*Program, error) {
		return Load("tinygo", c.Repo, "tinygo", []string{"./pkg/wasm"}, false, true)
	})
}

// Learn returns the learn module.
func (c *Ctx) Learn() (*Program, error) {
	return c.prog("learn", func() (*Program, error) {
		return Load("learn", filepath.Join(c.Repo, "learn"), "", []string{"./pkg/learn"}, true, false)
	})
}

func (c *Ctx) prog(name string, f func() (*Program, error)) (*Program, error) {
	if p, ok := c.progs[name]; ok {
		return p, nil
	}
	if err, ok := c.loadErr[name]; ok {
		return nil, err
	}
	p, err := f()
	if err != nil {
		c.loadErr[name] = err
		return nil, err
	}
	c.progs[name] = p
	return p, nil
}

// Result of running the rules of one property.
type Result struct {
	Property    string
	Tier        string
	Obligations []Obligation
	Undecided   []string
	Notes       []string
	RuleCounts  map[string]int
	RuleFloors  map[string]int
	RuleDocs    map[string]string
	Configs     []string
	Packages    []string
	Functions   int
	Wall        float64
}

// RunRules runs the given rules and collects obligations.
func RunRules(c *Ctx, property string, rules []*Rule) *Result {
	start := time.Now()
	res := &Result{Property: property, Tier: c.Tier, RuleCounts: map[string]int{}, RuleFloors: map[string]int{}, RuleDocs: map[string]string{}}
	for _, rule := range rules {
		rep := &Reporter{rule: rule, ctx: c}
		func() {
			defer func() {
				if x := recover(); x != nil {
					rep.Undecided("checker panic: %v", x)
					if os.Getenv("EVYCHECK_DEBUG") != "" {
						panic(x)
					}
				}
			}()
			rule.Run(c, rep)
		}()
		res.Obligations = append(res.Obligations, rep.obs...)
		res.Undecided = append(res.Undecided, rep.undecided...)
		res.Notes = append(res.Notes, rep.notes...)
		res.RuleCounts[rule.ID] = len(rep.obs)
		res.RuleFloors[rule.ID] = rule.Floor
		res.RuleDocs[rule.ID] = rule.Doc
		if len(rep.obs) < rule.Floor {
			res.Undecided = append(res.Undecided, fmt.Sprintf("%s: matched %d instances, floor is %d (vacuity guard)", rule.ID, len(rep.obs), rule.Floor))
		}
	}
	for name, p := range c.progs {
		res.Configs = append(res.Configs, name)
		for _, pkg := range p.Pkgs {
			res.Packages = append(res.Packages, name+":"+pkg.PkgPath)
			res.Functions += len(Funcs(pkg))
		}
	}
	sort.Strings(res.Configs)
	sort.Strings(res.Packages)
	res.Wall = time.Since(start).Seconds()
	return res
}

// KnownFindings is the committed list of recorded genuine defects.
type KnownFindings struct {
	Findings []Finding `json:"findings"`
	Fixed    []string  `json:"fixed"`
}

// Finding identifies a recorded defect by property, rule and construct.
type Finding struct {
	Property  string   `json:"property"`
	Rule      string   `json:"rule"`
	Construct string   `json:"construct"`
	Input     string   `json:"input"`
	Why       string   `json:"why"`
	Also      []string `json:"also_properties,omitempty"`
}

func (f Finding) matches(property string, o Obligation) bool {
	if f.Rule != o.Rule || f.Construct != o.Construct {
		return false
	}
	if f.Property == property {
		return true
	}
	for _, p := range f.Also {
		if p == property {
			return true
		}
	}
	return false
}

// LoadKnownFindings reads known_findings.json (never written by the tool).
func LoadKnownFindings(path string) (*KnownFindings, error) {
	b, err := os.ReadFile(path)
	if err != nil {
		if os.IsNotExist(err) {
			return &KnownFindings{}, nil
		}
		return nil, err
	}
	var k KnownFindings
	if err := json.Unmarshal(b, &k); err != nil {
		return nil, fmt.Errorf("%s: %w", path, err)
	}
	return &k, nil
}

// Outcome summarises a property run against the known findings.
type Outcome struct {
	Known      []Obligation
	KnownInfo  []Finding
	Violations []Obligation
	Exempt     []Obligation
	OK         int
}

// Classify splits obligations.
func Classify(res *Result, k *KnownFindings) *Outcome {
	out := &Outcome{}
	for _, o := range res.Obligations {
		switch o.Verdict {
		case OK:
			out.OK++
		case Exempt:
			out.Exempt = append(out.Exempt, o)
		case Violation:
			matched := false
			for _, f := range k.Findings {
				if f.matches(res.Property, o) {
					out.Known = append(out.Known, o)
					out.KnownInfo = append(out.KnownInfo, f)
					matched = true
					break
				}
			}
			if !matched {
				out.Violations = append(out.Violations, o)
			}
		}
	}
	return out
}

// Evidence per EVIDENCE.schema.json.
type Evidence struct {
	PropertyID  string         `json:"property_id"`
	Tier        string         `json:"tier"`
	Seed        int            `json:"seed"`
	Level       string         `json:"level"`
	Coverage    map[string]any `json:"coverage"`
	Assumptions []string       `json:"assumptions"`
	WallS       float64        `json:"wall_s"`
	Violations  int            `json:"violations"`
}

func relPos(fset *token.FileSet, pos token.Pos) string {
	p := fset.Position(pos)
	return fmt.Sprintf("%s:%d", p.Filename, p.Line)
}

// WriteEvidence writes evidence/<id>.json.
func WriteEvidence(verifDir string, prop *Property, res *Result, out *Outcome, seed int, extra map[string]any) error {
	distinct := map[string]bool{}
	for _, o := range res.Obligations {
		distinct[o.Rule+"|"+o.Construct] = true
	}
	samples := []any{}
	perRule := map[string]int{}
	for _, o := range res.Obligations {
		if perRule[o.Rule] < 4 || o.Verdict != OK {
			samples = append(samples, o)
			perRule[o.Rule]++
		}
	}
	rules := []any{}
	ids := make([]string, 0, len(res.RuleCounts))
	for id := range res.RuleCounts {
		ids = append(ids, id)
	}
	sort.Strings(ids)
	for _, id := range ids {
		rules = append(rules, map[string]any{"rule": id, "instances": res.RuleCounts[id], "floor": res.RuleFloors[id], "decides": res.RuleDocs[id]})
	}
	discharged := out.OK + len(out.Exempt)
	cov := map[string]any{
		"explanation":         prop.Explanation,
		"does_not_decide":     prop.NotDecided,
		"obligations":         len(res.Obligations),
		"discharged":          discharged,
		"exempt_by_review":    out.Exempt,
		"known_findings":      out.Known,
		"evaluations":         len(res.Obligations),
		"distinct_nontrivial": len(distinct),
		"rule":                "one obligation per rule instance (loop, call site, switch, conversion, store, path) enumerated from the type-checked source of /repo's working tree; distinct = distinct (rule, construct) pairs",
		"samples":             samples,
		"rules":               rules,
		"configurations":      res.Configs,
		"packages":            res.Packages,
		"functions_analysed":  res.Functions,
		"undecided":           res.Undecided,
		"notes":               res.Notes,
		"exhaustive":          true,
		"checker_cmd":         "bin/evycheck -property " + prop.ID + " -tier " + res.Tier,
		"trusted_base":        []string{"go/packages, go/types, go/ssa of golang.org/x/tools v0.29.0", "Go toolchain (go list) for build configuration"},
	}
	for k, v := range extra {
		cov[k] = v
	}
	ev := Evidence{
		PropertyID: prop.ID, Tier: res.Tier, Seed: seed, Level: "other", Coverage: cov,
		Assumptions: prop.Assumptions, WallS: res.Wall, Violations: len(out.Violations),
	}
	b, err := json.MarshalIndent(ev, "", " ")
	if err != nil {
		return err
	}
	dir := filepath.Join(verifDir, "evidence")
	if err := os.MkdirAll(dir, 0o755); err != nil {
		return err
	}
	return os.WriteFile(filepath.Join(dir, prop.ID+".json"), append(b, '\n'), 0o644)
}

// WriteViolations writes the replay file and returns its path.
func WriteViolations(verifDir string, prop *Property, res *Result, out *Outcome) (string, error) {
	dir := filepath.Join(verifDir, "evidence", "violations")
	if err := os.MkdirAll(dir, 0o755); err != nil {
		return "", err
	}
	path := filepath.Join(dir, prop.ID+".json")
	b, err := json.MarshalIndent(map[string]any{"property": prop.ID, "tier": res.Tier, "violations": out.Violations, "undecided": res.Undecided}, "", " ")
	if err != nil {
		return "", err
	}
	return path, os.WriteFile(path, append(b, '\n'), 0o644)
}

// Property binds rules to a property id.
type Property struct {
	ID          string
	Explanation string
	NotDecided  string
	Assumptions []string
	// Manifest texts.
	LevelText string // default: Explanation
	LevelNote string
	Technique string
	DesignRef string
	Rules     []*Rule
	// ThoroughRules run only in the thorough tier.
	ThoroughRules []*Rule
}

var registry = map[string]*Property{}

// Register adds a property.
func Register(p *Property) { registry[p.ID] = p }

// Lookup finds a property.
func Lookup(id string) *Property { return registry[id] }

// PropertyIDs lists registered ids sorted.
func PropertyIDs() []string {
	ids := []string{}
	for id := range registry {
		ids = append(ids, id)
	}
	sort.Strings(ids)
	return ids
}

func joinNonEmpty(parts ...string) string {
	out := []string{}
	for _, p := range parts {
		if p != "" {
			out = append(out, p)
		}
	}
	return strings.Join(out, " ")
}
