// Command evycheck decides structural clauses of the properties in
// /verif/properties.jsonl by static analysis of the working tree of /repo.
package main

import (
	"encoding/json"
	"flag"
	"fmt"
	"os"
	"path/filepath"
	"sort"
	"strconv"

	"evyverif/internal/check"
)

func main() {
	os.Exit(run())
}

func run() int {
	property := flag.String("property", "", "property id (C01..C20)")
	tier := flag.String("tier", "", "quick or thorough (default: $VERIF_TIER or quick)")
	repo := flag.String("repo", "/repo", "repository working tree to analyse")
	verif := flag.String("verif", "", "verif directory (default: cwd)")
	all := flag.Bool("all", false, "run all registered properties")
	list := flag.Bool("list", false, "list registered properties and rules")
	listJSON := flag.Bool("list-json", false, "dump registered properties with their manifest texts as JSON")
	replay := flag.String("replay", "", "re-run the property named in a violations file and print the diagnosis")
	noEvidence := flag.Bool("no-evidence", false, "do not write evidence files (used when analysing scratch copies)")
	verbose := flag.Bool("v", false, "print every obligation")
	dumpAnchors := flag.Bool("dump-anchors", false, "record the functions of the analysed packages (name and signature) as JSON: the reference for recognising renamed functions")
	flag.Parse()

	if *tier == "" {
		*tier = os.Getenv("VERIF_TIER")
	}
	if *tier != "thorough" {
		*tier = "quick"
	}
	if *verif == "" {
		wd, _ := os.Getwd()
		*verif = wd
	}
	seed, _ := strconv.Atoi(os.Getenv("VERIF_SEED"))

	if *dumpAnchors {
		t, err := check.DumpAnchors(check.NewCtx(*repo, "", *tier))
		if err != nil {
			fmt.Fprintln(os.Stderr, err)
			return 2
		}
		b, _ := json.MarshalIndent(t, "", " ")
		fmt.Println(string(b))
		return 0
	}
	if *listJSON {
		out := []map[string]any{}
		for _, id := range check.PropertyIDs() {
			p := check.Lookup(id)
			rules := []string{}
			for _, r := range p.Rules {
				rules = append(rules, r.ID)
			}
			for _, r := range p.ThoroughRules {
				rules = append(rules, r.ID+" (thorough)")
			}
			text := p.LevelText
			if text == "" {
				text = p.Explanation
			}
			out = append(out, map[string]any{"id": id, "text": text, "not_decided": p.NotDecided, "note": p.LevelNote, "technique": p.Technique, "design_ref": p.DesignRef, "rules": rules, "assumptions": p.Assumptions})
		}
		b, _ := json.MarshalIndent(out, "", " ")
		fmt.Println(string(b))
		return 0
	}
	if *list {
		for _, id := range check.PropertyIDs() {
			p := check.Lookup(id)
			fmt.Printf("%s:", id)
			for _, r := range p.Rules {
				fmt.Printf(" %s", r.ID)
			}
			for _, r := range p.ThoroughRules {
				fmt.Printf(" %s(thorough)", r.ID)
			}
			fmt.Println()
		}
		return 0
	}
	if *replay != "" {
		b, err := os.ReadFile(*replay)
		if err != nil {
			fmt.Fprintln(os.Stderr, "evycheck:", err)
			return 2
		}
		var v struct {
			Property string `json:"property"`
			Tier     string `json:"tier"`
		}
		if err := json.Unmarshal(b, &v); err != nil || v.Property == "" {
			fmt.Fprintln(os.Stderr, "evycheck: bad replay file", err)
			return 2
		}
		*property = v.Property
		if v.Tier == "thorough" {
			*tier = "thorough"
		}
		*noEvidence = true
		*verbose = false
	}

	ids := []string{}
	if *all {
		ids = check.PropertyIDs()
	} else if *property != "" {
		ids = []string{*property}
	} else {
		fmt.Fprintln(os.Stderr, "evycheck: need -property <id> or -all")
		return 2
	}
	known, err := check.LoadKnownFindings(filepath.Join(*verif, "known_findings.json"))
	if err != nil {
		fmt.Fprintln(os.Stderr, "evycheck:", err)
		return 2
	}
	ctx := check.NewCtx(*repo, *verif, *tier)
	worst := 0
	for _, id := range ids {
		code := runProperty(ctx, id, known, seed, *noEvidence, *verbose)
		if code > worst {
			worst = code
		}
	}
	return worst
}

func runProperty(ctx *check.Ctx, id string, known *check.KnownFindings, seed int, noEvidence, verbose bool) int {
	prop := check.Lookup(id)
	if prop == nil {
		fmt.Fprintf(os.Stderr, "evycheck: property %s is not claimed (see MANIFEST.json not_applicable)\n", id)
		return 2
	}
	rules := append([]*check.Rule{}, prop.Rules...)
	if ctx.Tier == "thorough" {
		rules = append(rules, prop.ThoroughRules...)
	}
	res := check.RunRules(ctx, id, rules)
	out := check.Classify(res, known)

	extra := map[string]any{}
	if ctx.Tier == "thorough" && !noEvidence {
		extra = check.ThoroughExtras(ctx, prop)
		if m, ok := extra["mutant_failures"].([]string); ok && len(m) > 0 {
			for _, f := range m {
				res.Undecided = append(res.Undecided, "mutant self-test: "+f)
			}
		}
	}

	if verbose {
		for _, o := range res.Obligations {
			fmt.Printf("  [%s] %s %s (%s) %s\n", o.Verdict, o.Rule, o.Construct, o.Pos, o.Why)
		}
	}
	counts := []string{}
	for r, n := range res.RuleCounts {
		counts = append(counts, fmt.Sprintf("%s=%d", r, n))
	}
	sort.Strings(counts)
	fmt.Printf("evycheck %s tier=%s: %d obligations (%d ok, %d exempt, %d known, %d violations) rules: %v wall=%.1fs\n",
		id, ctx.Tier, len(res.Obligations), out.OK, len(out.Exempt), len(out.Known), len(out.Violations), counts, res.Wall)
	for _, e := range out.Exempt {
		fmt.Printf("EXEMPT: property=%s %s %s (%s): %s\n", id, e.Rule, e.Construct, e.Pos, e.Why)
	}
	for i, k := range out.Known {
		fmt.Printf("KNOWN-FINDING: property=%s %s %s (%s): %s [input: %s]\n", id, k.Rule, k.Construct, k.Pos, k.Why, out.KnownInfo[i].Input)
	}
	if !noEvidence {
		if err := check.WriteEvidence(ctx.VerifDir, prop, res, out, seed, extra); err != nil {
			fmt.Fprintln(os.Stderr, "evycheck: writing evidence:", err)
			return 2
		}
	}
	if len(out.Violations) > 0 {
		path := filepath.Join(ctx.VerifDir, "evidence", "violations", id+".json")
		if !noEvidence {
			p, err := check.WriteViolations(ctx.VerifDir, prop, res, out)
			if err != nil {
				fmt.Fprintln(os.Stderr, "evycheck: writing violations:", err)
				return 2
			}
			path = p
		}
		for _, v := range out.Violations {
			fmt.Printf("%s: %s: %s: %s\n", v.Pos, v.Rule, v.Construct, v.Why)
		}
		fmt.Printf("VIOLATION property=%s replay=%s\n", id, path)
		return 1
	}
	if len(res.Undecided) > 0 {
		for _, u := range res.Undecided {
			fmt.Fprintf(os.Stderr, "UNDECIDED property=%s %s\n", id, u)
		}
		return 2
	}
	return 0
}
