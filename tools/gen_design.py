#!/usr/bin/env python3
"""Regenerates section 4 (per-property decisions) of DESIGN.md from the rule registry (bin/evycheck -list-json)."""
import json, subprocess, os, re
ROOT = os.path.dirname(os.path.dirname(os.path.abspath(__file__)))
props = json.loads(subprocess.run([os.path.join(ROOT, "bin/evycheck"), "-list-json"], capture_output=True, text=True, check=True).stdout)
titles = {}
for l in open(os.path.join(ROOT, "properties.jsonl")):
    p = json.loads(l); titles[p["id"]] = p["title"]
known = json.load(open(os.path.join(ROOT, "known_findings.json")))
byprop = {}
for f in known["findings"]:
    byprop.setdefault(f["property"], []).append(f["construct"])
out = []
for p in sorted(props, key=lambda p: p["id"]):
    out.append(f"### {p['id']} {titles[p['id']]}\n")
    out.append(f"Decides: {p['text']}\n")
    out.append(f"Does not decide: {p['not_decided']}\n")
    out.append("Rules: " + ", ".join(p["rules"]) + ".\n")
    if p["assumptions"]:
        out.append("Assumes: " + "; ".join(p["assumptions"]) + ".\n")
    if p["id"] in byprop:
        out.append("On the current tree: holds except for the recorded findings (" + "; ".join(sorted(set(byprop[p['id']]))) + ").\n")
    else:
        out.append("On the current tree: holds (all obligations discharged or exempt by review).\n")
text = "\n".join(out)
path = os.path.join(ROOT, "DESIGN.md")
s = open(path).read()
a = s.index("### C01 ")
b = s.index("### not_applicable")
s = s[:a] + text + "\n" + s[b:]
open(path, "w").write(s)
print("section 4 regenerated:", len(props), "properties")
