#!/usr/bin/env python3
"""Behaviour-preserving refactorings: the checks must stay silent on them.

  benign.py ingest <srcdir> <id>   confirm a refactoring (patch.diff, meta.json in <srcdir>) against /repo HEAD in a scratch
                                   worktree (builds, full suite of both modules passes) and store it as /verif/benign/<id>/
  benign.py run [<id>...]          apply each stored refactoring to a scratch worktree of /repo HEAD and run every claimed
                                   check with evycheck -repo; every VIOLATION or UNDECIDED line is a false alarm;
                                   writes benign/RESULTS.json

Scratch worktrees live under $TMPDIR (outside /repo and /verif) and are removed afterwards.
"""
import json, os, shutil, subprocess, sys, tempfile, glob

ROOT = os.path.dirname(os.path.dirname(os.path.abspath(__file__)))
REPO = os.environ.get("EVY_REPO", "/repo")
ENV = dict(os.environ, GOFLAGS="-mod=mod", GOPROXY="off", GOSUMDB="off", GOTOOLCHAIN="local", GOWORK="off")


def sh(cmd, cwd=None, timeout=1800):
    p = subprocess.run(cmd, shell=True, cwd=cwd, env=ENV, capture_output=True, text=True, timeout=timeout)
    return p.returncode, p.stdout + p.stderr


def worktree():
    d = tempfile.mkdtemp(prefix="evybenign-")
    os.rmdir(d)
    rc, out = sh(f"git -C {REPO} worktree add -q --detach {d} HEAD")
    if rc != 0:
        raise RuntimeError(out)
    return d


def drop(d):
    sh(f"git -C {REPO} worktree remove --force {d}")
    shutil.rmtree(d, ignore_errors=True)


def ingest(src, bid):
    meta = json.load(open(os.path.join(src, "meta.json")))
    wt = worktree()
    try:
        rc, out = sh(f"git apply {os.path.join(src, 'patch.diff')}", cwd=wt)
        if rc != 0:
            print(f"{bid}: REJECT patch does not apply\n{out[-500:]}")
            return False
        rc, out = sh("go build ./... && go test -count=1 ./...", cwd=wt)
        if rc != 0:
            print(f"{bid}: REJECT suite fails\n{out[-800:]}")
            return False
        rc, out = sh("go test -count=1 ./...", cwd=os.path.join(wt, "learn"))
        if rc != 0:
            print(f"{bid}: REJECT learn suite fails\n{out[-800:]}")
            return False
    finally:
        drop(wt)
    dst = os.path.join(ROOT, "benign", bid)
    os.makedirs(dst, exist_ok=True)
    shutil.copy(os.path.join(src, "patch.diff"), os.path.join(dst, "patch.diff"))
    meta["confirmed"] = {"repo_head": sh(f"git -C {REPO} rev-parse --short HEAD")[1].strip(), "outcome": "applies, builds, full suite of both modules passes"}
    json.dump(meta, open(os.path.join(dst, "meta.json"), "w"), indent=1)
    print(f"{bid}: stored")
    return True


def run_one(pd):
    d = os.path.dirname(pd)
    bid = os.path.basename(d)
    meta = json.load(open(os.path.join(d, "meta.json")))
    wt = worktree()
    try:
        rc, out = sh(f"git apply {pd}", cwd=wt)
        if rc != 0:
            rc, out = sh(f"git apply --3way {pd} && git reset -q", cwd=wt)
        if rc != 0:
            return bid, {"property": meta.get("property"), "status": "patch no longer applies"}
        rc, out = sh("go build ./... ", cwd=wt)
        if rc != 0:
            return bid, {"property": meta.get("property"), "status": "does not build any more"}
        rc, out = sh(f"bin/evycheck -all -no-evidence -repo {wt}", cwd=ROOT)
        alarms = [l.replace(wt + "/", "") for l in out.splitlines() if (": R-" in l and not l.startswith(("EXEMPT", "KNOWN", "  "))) or l.startswith("UNDECIDED")]
        props = sorted(set(l.split("property=")[1].split()[0] for l in out.splitlines() if l.startswith(("VIOLATION property=", "UNDECIDED property="))))
        return bid, {"property": meta.get("property"), "status": "silent" if not props else "FALSE ALARM", "alarmed": props, "summary": meta.get("summary", ""), "lines": alarms[:6]}
    finally:
        drop(wt)


def run(ids):
    from concurrent.futures import ThreadPoolExecutor
    sh("go build -o bin/evycheck ./cmd/evycheck", cwd=ROOT)
    dirs = sorted(glob.glob(os.path.join(ROOT, "benign", "*", "patch.diff")))
    respath = os.path.join(ROOT, "benign", "RESULTS.json")
    results = json.load(open(respath)) if os.path.exists(respath) and ids else {}
    todo = [pd for pd in dirs if not ids or os.path.basename(os.path.dirname(pd)) in ids]
    with ThreadPoolExecutor(max_workers=4) as ex:
        for bid, res in ex.map(run_one, todo):
            results[bid] = res
            print(f"{bid:14s} {res['property']} {res['status']:12s} {res.get('alarmed', '')}", flush=True)
            for l in res.get("lines", [])[:3]:
                print("     ", l[:240], flush=True)
    json.dump(results, open(respath, "w"), indent=1, sort_keys=True)
    tot = len(results)
    silent = sum(1 for r in results.values() if r["status"] == "silent")
    print(f"{silent}/{tot} refactorings leave every check silent")


if __name__ == "__main__":
    if len(sys.argv) >= 4 and sys.argv[1] == "ingest":
        sys.exit(0 if ingest(sys.argv[2], sys.argv[3]) else 1)
    elif len(sys.argv) >= 2 and sys.argv[1] == "run":
        run(sys.argv[2:])
    else:
        print(__doc__)
        sys.exit(2)
