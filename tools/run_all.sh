#!/bin/sh
# usage: tools/run_all.sh [quick|thorough]  — runs every claimed check from MANIFEST.json against /repo and validates the evidence.
cd "$(dirname "$0")/.." || exit 2
tier="${1:-quick}"
rc=0
for id in $(python3 -c "import json;print(' '.join(c['property_id'] for c in json.load(open('MANIFEST.json'))['checks']))"); do
  out=$(./check.sh "$id" "$tier" 2>&1); code=$?
  echo "$id exit=$code $(echo "$out" | grep '^evycheck' | cut -c1-160)"
  [ $code -ne 0 ] && { echo "$out" | grep -v '^EXEMPT' | tail -5; rc=1; }
done
python3-vt - <<'PY'
import json, jsonschema, glob
s = json.load(open('/root/.vp/EVIDENCE.schema.json'))
for f in sorted(glob.glob('evidence/C*.json')):
    jsonschema.validate(json.load(open(f)), s)
jsonschema.validate(json.load(open('MANIFEST.json')), json.load(open('/root/.vp/MANIFEST.schema.json')))
print("evidence and manifest validate")
PY
exit $rc
