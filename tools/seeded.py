#!/usr/bin/env python3
"""Seeded-change tooling.

  seeded.py verify <srcdir> <id>   confirm an independently written change (patch.diff, demo, meta.json in <srcdir>)
                                   against /repo HEAD in a scratch worktree: suite passes with it, demo fails with it,
                                   demo passes without it; then store it as /verif/seeded/<id>/
  seeded.py run [<id>...]          apply each stored change to a scratch worktree of /repo HEAD and run the checks of
                                   its property (and every other claimed property) with evycheck -repo; print a table
                                   and write seeded/RESULTS.json

Scratch worktrees live under $TMPDIR (outside /repo and /verif) and are removed afterwards.
"""
import json, os, shutil, subprocess, sys, tempfile, glob

ROOT = os.path.dirname(os.path.dirname(os.path.abspath(__file__)))
REPO = os.environ.get("EVY_REPO", "/repo")
ENV = dict(os.environ, GOFLAGS="-mod=mod", GOPROXY="off", GOSUMDB="off", GOTOOLCHAIN="local", GOWORK="off")


def sh(cmd, cwd=None, timeout=1800):
    p = subprocess.run(cmd, shell=True, cwd=cwd, env=ENV, capture_output=True, text=True, timeout=timeout)
    return p.returncode, p.stdout + p.stderr


def worktree():
    d = tempfile.mkdtemp(prefix="evyseed-")
    os.rmdir(d)
    rc, out = sh(f"git -C {REPO} worktree add -q --detach {d} HEAD")
    if rc != 0:
        raise RuntimeError(out)
    return d


def drop(d):
    sh(f"git -C {REPO} worktree remove --force {d}")
    shutil.rmtree(d, ignore_errors=True)


def run_demo(wt, src, meta):
    dest = meta.get("demo_dest") or ""
    cmd = meta.get("demo_cmd") or ""
    if dest:
        shutil.copy(os.path.join(src, "demo_test.go"), os.path.join(wt, dest))
        rc, out = sh(cmd, cwd=wt)
        os.remove(os.path.join(wt, dest))
    else:
        rc, out = sh(f"sh {os.path.join(src, 'demo.sh')} {wt}", cwd=wt)
    return rc, out


def verify(src, sid):
    meta = json.load(open(os.path.join(src, "meta.json")))
    wt = worktree()
    ran = []
    try:
        rc, out = run_demo(wt, src, meta)
        ran.append({"cmd": "demo on clean HEAD", "rc": rc})
        if rc != 0:
            print(f"{sid}: REJECT demo fails on the clean tree\n{out[-1500:]}")
            return False
        rc, out = sh(f"git apply {os.path.join(src, 'patch.diff')}", cwd=wt)
        if rc != 0:
            print(f"{sid}: REJECT patch does not apply to HEAD\n{out[-800:]}")
            return False
        rc, out = sh("go build ./... && go test -count=1 ./...", cwd=wt)
        ran.append({"cmd": "go build ./... && go test -count=1 ./... (root, with change)", "rc": rc})
        if rc != 0:
            print(f"{sid}: REJECT existing suite fails with the change\n{out[-1500:]}")
            return False
        rc, out = sh("go test -count=1 ./...", cwd=os.path.join(wt, "learn"))
        ran.append({"cmd": "cd learn && go test -count=1 ./... (with change)", "rc": rc})
        if rc != 0:
            print(f"{sid}: REJECT learn suite fails with the change\n{out[-1500:]}")
            return False
        rc, out = run_demo(wt, src, meta)
        ran.append({"cmd": "demo with change", "rc": rc})
        if rc == 0:
            print(f"{sid}: REJECT demo passes with the change")
            return False
    finally:
        drop(wt)
    dst = os.path.join(ROOT, "seeded", sid)
    os.makedirs(dst, exist_ok=True)
    for f in ("patch.diff", "demo_test.go", "demo.sh"):
        if os.path.exists(os.path.join(src, f)):
            shutil.copy(os.path.join(src, f), os.path.join(dst, f))
    head = sh(f"git -C {REPO} rev-parse --short HEAD")[1].strip()
    meta["confirmed"] = {"repo_head": head, "ran": ran,
                         "outcome": "suite passes with the change; demo fails with it and passes without it"}
    json.dump(meta, open(os.path.join(dst, "meta.json"), "w"), indent=1)
    print(f"{sid}: confirmed and stored")
    return True


def claimed():
    m = json.load(open(os.path.join(ROOT, "MANIFEST.json")))
    return [c["property_id"] for c in m["checks"]]


def run_one(pd, props):
    d = os.path.dirname(pd)
    sid = os.path.basename(d)
    meta = json.load(open(os.path.join(d, "meta.json")))
    prop = meta["property"]
    wt = worktree()
    try:
        rc, out = sh(f"git apply {pd}", cwd=wt)
        if rc != 0:
            # the context moved because of later fix: commits in /repo: merge against the recorded pre-image blobs
            rc, out = sh(f"git apply --3way {pd} && git reset -q", cwd=wt)
        if rc != 0:
            return sid, {"property": prop, "status": "patch no longer applies", "detected_by": []}
        rc, out = sh(f"bin/evycheck -all -no-evidence -repo {wt}", cwd=ROOT)
        detected = sorted(set(l.split("property=")[1].split()[0] for l in out.splitlines() if l.startswith("VIOLATION property=")))
        undecided = sorted(set(l.split("property=")[1].split()[0] for l in out.splitlines() if l.startswith("UNDECIDED property=")))
        detected = [p for p in detected if p in props]
        undecided = [p for p in undecided if p in props and p not in detected]
        lines = []
        seen = set()
        for l in out.splitlines():
            if ": R-" in l and not l.startswith(("EXEMPT", "KNOWN", "  ")):
                key = l.split(": R-", 1)[1][:120]
                if key not in seen:
                    seen.add(key)
                    lines.append(l.replace(wt + "/", ""))
        status = "detected" if prop in detected else ("detected-by-other" if detected else ("undecided" if undecided else "missed"))
        return sid, {"property": prop, "status": status, "detected_by": detected, "undecided": undecided,
                     "summary": meta.get("summary", ""), "report": lines[:4]}
    finally:
        drop(wt)


def run(ids):
    from concurrent.futures import ThreadPoolExecutor
    sh("go build -o bin/evycheck ./cmd/evycheck", cwd=ROOT)
    dirs = sorted(glob.glob(os.path.join(ROOT, "seeded", "*", "patch.diff")))
    props = claimed()
    results = {}
    respath = os.path.join(ROOT, "seeded", "RESULTS.json")
    if os.path.exists(respath) and ids:
        results = json.load(open(respath))
    todo = [pd for pd in dirs if not ids or os.path.basename(os.path.dirname(pd)) in ids]
    with ThreadPoolExecutor(max_workers=4) as ex:
        for sid, res in ex.map(lambda pd: run_one(pd, props), todo):
            results[sid] = res
            print(f"{sid:12s} {res['property']} {res['status']:18s} by={res['detected_by']} undecided={res.get('undecided', [])}", flush=True)
            for l in res.get("report", [])[:2]:
                print("     ", l[:230], flush=True)
    json.dump(results, open(respath, "w"), indent=1, sort_keys=True)
    tot = len(results)
    det = sum(1 for r in results.values() if r["status"].startswith("detected"))
    own = sum(1 for r in results.values() if r["status"] == "detected")
    print(f"{det}/{tot} seeded changes detected ({own} by the check of their own property)")


if __name__ == "__main__":
    if len(sys.argv) >= 4 and sys.argv[1] == "verify":
        sys.exit(0 if verify(sys.argv[2], sys.argv[3]) else 1)
    elif len(sys.argv) >= 2 and sys.argv[1] == "run":
        run(sys.argv[2:])
    else:
        print(__doc__)
        sys.exit(2)
