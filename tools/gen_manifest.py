#!/usr/bin/env python3
"""Regenerates /verif/MANIFEST.json from the table below and the list of
properties registered in bin/evycheck (evycheck -list). A property that is not
registered is listed under not_applicable with its reason."""
import json, subprocess, os, sys

ROOT = os.path.dirname(os.path.dirname(os.path.abspath(__file__)))

NOT_APPLICABLE_REASON = {
}

def main():
    out = subprocess.run([os.path.join(ROOT, "bin/evycheck"), "-list-json"], capture_output=True, text=True, check=True).stdout
    props = {p["id"]: p for p in json.loads(out)}
    registered = list(props)
    checks = []
    na = []
    for i in range(1, 21):
        pid = f"C{i:02d}"
        if pid in registered:
            pr = props[pid]
            text = pr["text"] + " Does not decide: " + pr["not_decided"]
            note = pr["note"] or ("Trusts go/packages, go/types, go/ssa and the CHA call graph of x/tools v0.29.0 and the Go toolchain's build configuration. Assumptions: " + "; ".join(pr["assumptions"] or ["none beyond the trusted base"]) + ". Reviewed exemptions are single named constructs printed on every run.")
            technique = pr["technique"] or "repository-specific static analysis (type-checked AST + SSA dominance/def-use + call graph): " + ", ".join(pr["rules"])
            ref = pr["design_ref"] or "DESIGN.md §3 (rules " + ", ".join(pr["rules"]) + "), §4 " + pid
            checks.append({
                "property_id": pid,
                "quick_cmd": f"./check.sh {pid} quick",
                "thorough_cmd": f"./check.sh {pid} thorough",
                "evidence_file": f"evidence/{pid}.json",
                "replay_cmd_template": "bin/evycheck -replay {path}",
                "engine": "evycheck",
                "level_claimed": {"category": "other", "text": text, "design_ref": ref},
                "level_note": note,
                "technique": technique,
            })
        else:
            na.append({"property_id": pid, "reason": NOT_APPLICABLE_REASON.get(pid, "static check for this property is not built yet at this commit (see DESIGN.md §4 for the planned structural clauses); nothing is claimed")})
    manifest = {
        "version": 1,
        "setup_cmd": "./setup.sh",
        "hooks": {
            "guard": "verif",
            "enable": "none needed: static analysis reads the source of /repo; no instrumentation is compiled in",
            "baseline_off_cmd": "for m in . learn; do (cd /repo/$m && GOFLAGS=-mod=mod GOPROXY=off GOSUMDB=off GOTOOLCHAIN=local go test -json -vet=off -count=1 -timeout 25m ./...); done",
            "source_commits": [],
            "add_only": True,
        },
        "engines": [{
            "name": "evycheck",
            "path": "cmd/evycheck",
            "serves_properties": [c["property_id"] for c in checks],
            "kind_free_text": "repository-specific static analyser (go/packages + go/types + go/ssa + CHA call graph, x/tools v0.29.0): rule catalogue in DESIGN.md §3",
        }],
        "checks": checks,
        "not_applicable": na,
        "notes": "All checks are static: they load /repo's working tree on every run, never execute Evy programs or the test suite. Exit 0 = all obligations discharged (KNOWN-FINDING lines for recorded defects), 1 = VIOLATION, 2 = undecided (load error, unresolved anchor, instance count under floor).",
    }
    with open(os.path.join(ROOT, "MANIFEST.json"), "w") as f:
        json.dump(manifest, f, indent=1)
        f.write("\n")
    print("claimed:", [c["property_id"] for c in checks])
    print("not_applicable:", [n["property_id"] for n in na])

if __name__ == "__main__":
    main()
