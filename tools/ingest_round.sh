#!/bin/sh
# usage: tools/ingest_round.sh <outdir> <tag> <id>...   e.g. tools/ingest_round.sh /tmp/wtout2 r2 C09 C10
out=$1; tag=$2; shift 2
cd "$(dirname "$0")/.."
for id in "$@"; do for k in 1 2 3; do
  [ -d $out/$id/m$k ] && python3 tools/seeded.py verify $out/$id/m$k ${id}-${tag}m$k 2>&1 | tail -2
done; done
