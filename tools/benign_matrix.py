import json,subprocess,os,re,collections,sys,glob,tempfile,shutil
ROOT='/verif'; REPO='/repo'
ENV=dict(os.environ,GOFLAGS="-mod=mod",GOPROXY="off",GOSUMDB="off",GOTOOLCHAIN="local",GOWORK="off")
from concurrent.futures import ThreadPoolExecutor
def one(pd):
    bid=os.path.basename(os.path.dirname(pd))
    d=tempfile.mkdtemp(prefix='evyb-'); os.rmdir(d)
    subprocess.run(f'git -C {REPO} worktree add -q --detach {d} HEAD',shell=True,check=True)
    try:
        subprocess.run(f'git apply {pd}',shell=True,cwd=d,check=True,capture_output=True)
        out=subprocess.run(f'bin/evycheck -all -no-evidence -repo {d}',shell=True,cwd=ROOT,env=ENV,capture_output=True,text=True)
        txt=out.stdout+out.stderr
        lines=set()
        for l in txt.splitlines():
            if l.startswith('UNDECIDED'):
                m=re.search(r'UNDECIDED property=\S+ (R-[^:]+|mutant[^:]*):? ?(.*)',l)
                lines.add(('UNDEC',m.group(1) if m else '?', (m.group(2) if m else l)[:160]))
            elif ': R-' in l and not l.startswith(('EXEMPT','KNOWN','  ')):
                m=re.search(r': (R-[^:]+): ([^:]+#[^:]*)',l)
                lines.add(('VIOL',m.group(1) if m else '?', (m.group(2) if m else l)[:160].replace(d+'/','')))
        return bid,sorted(lines)
    finally:
        subprocess.run(f'git -C {REPO} worktree remove --force {d}',shell=True)
dirs=sorted(glob.glob(ROOT+'/benign/*/patch.diff'))
if len(sys.argv)>1: dirs=[x for x in dirs if os.path.basename(os.path.dirname(x)) in sys.argv[1:]]
res={}
with ThreadPoolExecutor(max_workers=5) as ex:
    for bid,lines in ex.map(one,dirs): res[bid]=lines
json.dump(res,open('/tmp/benign_matrix.json','w'),indent=1)
byrule=collections.defaultdict(list)
for bid,lines in res.items():
    for kind,rule,what in lines: byrule[rule].append((bid,kind,what))
for rule,items in sorted(byrule.items(),key=lambda x:-len(set(i[0] for i in x[1]))):
    print(rule,len(set(i[0] for i in items)),sorted(set(i[0].replace('B-','') for i in items)))
print('silent',sum(1 for v in res.values() if not v),'/',len(res))
