#!/bin/sh
# usage: ./check.sh <property-id> [quick|thorough]
# Rebuilds evycheck from /verif sources (cached) and analyses /repo's working tree.
cd "$(dirname "$0")" || exit 2
export GOFLAGS=-mod=mod GOPROXY=off GOSUMDB=off GOTOOLCHAIN=local GOWORK=off
go build -o bin/evycheck ./cmd/evycheck || { echo "evycheck: build failed" >&2; exit 2; }
exec bin/evycheck -property "$1" -tier "${2:-${VERIF_TIER:-quick}}" -repo "${EVY_REPO:-/repo}"
