package learn

import (
	"os"
	"path/filepath"
	"strings"
	"testing"
)

// A letter marked correct in the front matter that lies beyond the existing
// choices must make verification fail: the marked set is not the set of
// choices whose output equals the question's output.
func TestVerifMarkedBeyondChoices(t *testing.T) {
	src, err := os.ReadFile("testdata/course1/unit1/cls/q-cls4.md")
	if err != nil {
		t.Fatal(err)
	}
	if !strings.Contains(string(src), "answer: a,d") {
		t.Skip("fixture changed")
	}
	dir := t.TempDir()
	good := filepath.Join(dir, "good.md")
	bad := filepath.Join(dir, "bad.md")
	if err := os.WriteFile(good, src, 0o600); err != nil {
		t.Fatal(err)
	}
	if err := os.WriteFile(bad, []byte(strings.Replace(string(src), "answer: a,d", "answer: a,d,z", 1)), 0o600); err != nil {
		t.Fatal(err)
	}
	if _, err := NewQuestionModel(good); err != nil {
		t.Fatalf("unchanged question must verify: %v", err)
	}
	m, err := NewQuestionModel(bad)
	if err == nil {
		err = m.Verify()
	}
	if err == nil {
		t.Errorf("a question whose answer marks the non-existing choice z was accepted")
	}
}
