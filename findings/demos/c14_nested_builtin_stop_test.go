package evaluator

import (
	"errors"
	"testing"
)

// stopOnReadRT raises the stop flag inside Read, as the browser platform does
// when Stop is pressed while the program waits for input.
type stopOnReadRT struct {
	testRT
	eval *Evaluator
}

func (rt *stopOnReadRT) Read() string {
	rt.eval.Stopped = true
	return ""
}

func TestVerifNestedBuiltinStop(t *testing.T) {
	rt := &stopOnReadRT{}
	rt.UnimplementedPlatform.print = rt.Print
	rt.eval = NewEvaluator(rt)
	err := rt.eval.Run("print (read)\n")
	if got := rt.b.String(); got != "" {
		t.Errorf("print ran after the stop flag was raised inside read: output %q", got)
	}
	if !errors.Is(err, ErrStopped) {
		t.Errorf("want ErrStopped, got %v", err)
	}
}
