#!/bin/sh
# Reproduces the recorded findings of known_findings.json against /repo's HEAD in a scratch worktree.
# Exit status 0 = every finding still reproduces.
set -e
export GOFLAGS=-mod=mod GOPROXY=off GOSUMDB=off GOTOOLCHAIN=local GOWORK=off
here=$(cd "$(dirname "$0")" && pwd)
wt=$(mktemp -d /tmp/evyfind-XXXXXX); rmdir "$wt"
git -C /repo worktree add -q --detach "$wt" HEAD
trap 'git -C /repo worktree remove --force "$wt"' EXIT
cd "$wt"
go build -o "$wt/evy-bin" .
rc=0
printf 'ellipse 50 20 10 5\n' > f1.evy
./evy-bin run --svg-out f1.svg f1.evy
if grep -q 'cy="200"' f1.svg; then echo "REPRODUCED ellipse: cy=200 (expected 800: y axis not flipped)"; else echo "NOT reproduced: ellipse"; rc=1; fi
printf 'font {baseline:"top"}\ntext "x"\n' > f2.evy
./evy-bin run --svg-out f2.svg f2.evy
if grep -q 'dominant-baseline="top"' f2.svg; then echo "REPRODUCED font baseline: raw value \"top\" instead of \"hanging\""; else echo "NOT reproduced: font baseline"; rc=1; fi
cp "$here/vm_findings_test.go" pkg/bytecode/zz_findings_test.go
out=$(go test -count=1 -run TestFinding ./pkg/bytecode 2>&1 || true)
for t in TestFindingLoopVarSharesSlot TestFindingMapIndexAssignOrder TestFindingStringIndexBytes; do
  if echo "$out" | grep -q -- "--- FAIL: $t"; then echo "REPRODUCED $t"; else echo "NOT reproduced: $t"; rc=1; fi
done
echo "$out" | grep -E "got|want|prints" | head -6
exit $rc
