package bytecode

// Demonstrations of the recorded (unrepaired) VM findings. Copy this file to
// pkg/bytecode/zz_findings_test.go in a scratch worktree of /repo and run
//   go test -count=1 -run TestFinding ./pkg/bytecode
// Every test FAILS on the pinned tree: it states the behaviour the evaluator has.

import (
	"testing"

	"evylang.dev/evy/pkg/evaluator"
	"evylang.dev/evy/pkg/parser"
)

func runVM(t *testing.T, src string) (*VM, *Compiler) {
	t.Helper()
	prog, err := parser.Parse(src, evaluator.BuiltinDecls())
	if err != nil {
		t.Fatalf("parse: %v", err)
	}
	c := NewCompiler()
	if err := c.Compile(prog); err != nil {
		t.Fatalf("compile: %v", err)
	}
	vm := NewVM(c.Bytecode())
	if err := vm.Run(); err != nil {
		t.Fatalf("run: %v", err)
	}
	return vm, c
}

func global(t *testing.T, vm *VM, c *Compiler, name string) value {
	t.Helper()
	sym, ok := c.symbolTable.Resolve(name)
	if !ok {
		t.Fatalf("no symbol %s", name)
	}
	return vm.globals[sym.Index]
}

// R-LOOPVARSCOPE: the loop variable shares the slot of the outer i.
func TestFindingLoopVarSharesSlot(t *testing.T) {
	vm, c := runVM(t, "i := 5\nx := 0\nfor i := range 3\n    x = x + i\nend\ni = i\n")
	if got := global(t, vm, c, "i").String(); got != "5" {
		t.Errorf("outer i after the loop: got %s, the evaluator keeps 5", got)
	}
}

// R-VMVALUES lost update: a key added by index assignment is not in the key order.
func TestFindingMapIndexAssignOrder(t *testing.T) {
	vm, c := runVM(t, "m := {a:1}\nm[\"b\"] = 2\nm = m\n")
	if got := global(t, vm, c, "m").String(); got != "{a: 1, b: 2}" {
		t.Errorf("map after m[\"b\"] = 2 prints %s, want both keys", got)
	}
}

// R-RUNES/pkg/bytecode: strings are indexed by byte.
func TestFindingStringIndexBytes(t *testing.T) {
	vm, c := runVM(t, "s := \"aé\"\nx := s[1]\nx = x\n")
	if got := global(t, vm, c, "x").String(); got != "é" {
		t.Errorf("\"aé\"[1] on the VM: got %q, the evaluator gives \"é\"", got)
	}
}
